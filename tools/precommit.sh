#!/bin/bash
# precommit.sh: what must hold before /verif is committed as a coherent state:
#   regression replays re-recorded for the current check code, every quick check exits 0 on /repo,
#   MANIFEST.json regenerated and valid, every evidence file valid.
cd "$(dirname "$0")/.."
set -u
tools/rerecord.sh || { echo "REGRESSION REPLAYS NOT RE-RECORDED"; exit 1; }
python3 tools/mkmanifest.py || exit 1
fail=0
for id in C04 C05 C06 C10 C12 C13 C16 C17 C20; do
  out=$(./run.sh $id quick 2>&1); rc=$?
  echo "$out" | grep -E "quick:|VIOLATION|KNOWN|trouble" | head -5
  [ $rc -ne 0 ] && { echo "$id exit $rc"; fail=1; }
done
python3-vt - <<'PY' || fail=1
import json,jsonschema,glob
jsonschema.validate(json.load(open('MANIFEST.json')), json.load(open('/root/.vp/MANIFEST.schema.json')))
for f in sorted(glob.glob('evidence/*.json')):
    jsonschema.validate(json.load(open(f)), json.load(open('/root/.vp/EVIDENCE.schema.json')))
print('manifest and evidence valid')
PY
exit $fail
