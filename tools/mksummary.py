#!/usr/bin/env python3
"""Builds seeded/SUMMARY.md from seeded/*/meta.json and seeded/*/matrix.txt."""
import json, os, re
root='/verif/seeded'
ids=['C04','C05','C06','C10','C12','C13','C16','C17','C20']
rows=[]
for name in sorted(os.listdir(root)):
    d=os.path.join(root,name)
    if not os.path.isfile(os.path.join(d,'meta.json')): continue
    m=json.load(open(os.path.join(d,'meta.json')))
    mx={}
    p=os.path.join(d,'matrix.txt')
    if os.path.isfile(p):
        for line in open(p):
            mm=re.match(r'(C\d+) rc=(\d+)\s*(.*)',line.strip())
            if mm: mx[mm.group(1)]=(int(mm.group(2)),mm.group(3).strip())
    rows.append((name,m,mx))
out=["# Seeded changes and which checks catch them","",
"Each row is one change produced by a fresh sub-agent (only the property text and a scratch worktree), confirmed by `tools/try_patch.sh` and never committed to /repo.",
"Matrix cells: quick tier of a check against the changed tree (`tools/matrix.sh`): **X** = exits 1 with a VIOLATION, . = exits 0, ! = exit 2 (harness trouble), blank = not run.",
"Rows with all nine cells filled come from the full cross-matrix (every check against every change) run at /verif commit 35d7a06 (waves 1-5); rows with only some cells filled were re-confirmed later (`MATRIX_ONLY_CAUGHT=1`: only the checks named under caught_now_by) at commit a09ebf0; rows without cells (wave 9, and any row the last re-confirmation did not reach) were confirmed with `tools/try_patch.sh` as recorded in their meta.json.",""]
out.append("| change | aimed at | "+" | ".join(ids)+" | what it is |")
out.append("|---|---|"+"|".join(["---"]*len(ids))+"|---|")
caught=0; total=0
for name,m,mx in rows:
    cells=[]
    hit=False
    for i in ids:
        if i in mx:
            rc=mx[i][0]
            cells.append({0:'.',1:'**X**'}.get(rc,'!'))
            if rc==1: hit=True
        else: cells.append(' ')
    aimed=m.get('asked_to_break_property') or m.get('breaks_property')
    status=m.get('status','kept')
    total+=1
    if hit: caught+=1
    what=m.get('change') or m.get('note','')
    if status!='kept': what='('+status+') '+what
    out.append("| %s | %s | %s | %s |" % (name, aimed, " | ".join(cells), what.replace('|','/')))
out.append("")
out.append("%d changes; %d caught by at least one check in the matrix runs recorded here." % (total,caught))
open(os.path.join(root,'SUMMARY.md'),'w').write("\n".join(out)+"\n")
print(total,caught)
