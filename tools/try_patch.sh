#!/bin/bash
# try_patch.sh <dir with patch.diff + demo> <demo package dir, e.g. ./file/> <check ids...>
# Confirms a seeded change in a scratch worktree of /repo (never in /repo itself):
#   demo passes without the change; change applies, builds, existing suite passes; demo fails with it;
#   then runs the named checks (quick tier) against the changed tree.
set -u
export GOFLAGS=-mod=mod GOPROXY=off GOSUMDB=off GOTOOLCHAIN=local
D="$(cd "$1" && pwd)"; PKG="$2"; shift 2
WT="$(mktemp -d /tmp/try-XXXXXX)"; rmdir "$WT"
git -C /repo worktree add -q "$WT" HEAD || exit 2
cleanup() { git -C /repo worktree remove --force "$WT" 2>/dev/null; rm -rf "$WT"; }
trap cleanup EXIT
demo="$(ls "$D"/*_test.go 2>/dev/null | head -1)"
run_demo() {
  if [ -n "$demo" ]; then
    cp "$demo" "$WT/$PKG/zz_seeded_demo_test.go"
    (cd "$WT" && go test -count=1 ${DEMO_FLAGS:-} "$PKG" 2>&1 | tail -${DEMO_TAIL:-6}); rc=${PIPESTATUS[0]}
    (cd "$WT" && go test -count=1 ${DEMO_FLAGS:-} "$PKG" >/dev/null 2>&1); rc=$?
    rm -f "$WT/$PKG/zz_seeded_demo_test.go"
    return $rc
  elif [ -d "$D/demo" ] || ls "$D"/*.go >/dev/null 2>&1; then
    mkdir -p "$WT/cmd_seeded_demo"; cp "$D"/*.go "$WT/cmd_seeded_demo/" 2>/dev/null; [ -d "$D/demo" ] && cp "$D"/demo/*.go "$WT/cmd_seeded_demo/"
    (cd "$WT" && go run ${DEMO_FLAGS:-} ./cmd_seeded_demo 2>&1 | tail -6); 
    (cd "$WT" && go run ${DEMO_FLAGS:-} ./cmd_seeded_demo >/dev/null 2>&1); rc=$?
    rm -rf "$WT/cmd_seeded_demo"
    return $rc
  fi
  return 99
}
echo "== demo WITHOUT the change (must pass)"; run_demo; echo "demo_without_rc=$?"
echo "== apply"; (cd "$WT" && git apply "$D/patch.diff") || { echo "PATCH DOES NOT APPLY"; exit 3; }
(cd "$WT" && go build ./... ) || { echo "DOES NOT BUILD"; exit 3; }
if [ "${SKIP_SUITE:-0}" != 1 ]; then
  echo "== existing suite WITH the change (must pass)"; (cd "$WT" && go test -count=1 ./... 2>&1 | grep -v "no test files" | tail -8); (cd "$WT" && go test -count=1 ./... >/dev/null 2>&1); echo "suite_rc=$?"
fi
echo "== demo WITH the change (must fail)"; run_demo; echo "demo_with_rc=$?"
cd /verif
for id in "$@"; do
  echo "== check $id against the changed tree"
  VERIF_REPO="$WT" ./run.sh "$id" "${TIER:-quick}" 2>&1 | grep -E "^violation|VIOLATION|KNOWN|trouble|quick:|thorough:" | head -8
  echo "check_${id}_rc=${PIPESTATUS[0]}"
done
