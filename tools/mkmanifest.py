#!/usr/bin/env python3
"""Regenerates /verif/MANIFEST.json from the table below (single source of truth)."""
import json, os, sys
HERE = os.path.dirname(os.path.dirname(os.path.abspath(__file__)))

CLAIMED = {
 "C04": dict(level="exploration", ref="DESIGN.md §3 C04",
   technique="deterministic simulation: seeded Seek/Read histories of 1-3 interleaved reader clients over a simulated block store, step-by-step comparison with an independent (content,pos) reference model, tape shrinking to a minimal replayable history",
   text="Seeded search over histories x DAG shapes (this builder, boxo balanced/trickle importer, harness-written legal oddities incl. missing BlockSizes, zero-length leaves, single-link wrappers, Raw-typed and metadata-carrying nodes) at tree widths 2..174, three ways of opening the node, link systems with and without NodeReifier; every Read/Seek/AsBytes is compared with a reference reader over content parsed independently from the stored blocks. Sampling, not proof: a clean batch is evidence that no history of the explored shape breaks the ReadSeeker contract.",
   note="Trusts: boxo merkledag/unixfs protobuf parsing for the reference content; go-ipld-prime LinkSystem; well-formed DAGs only; offsets within int64; invalid whence not generated."),
 "C05": dict(level="exploration", ref="DESIGN.md §3 C05",
   technique="deterministic simulation: request monitor at the simulated block store against an independently computed allowed block set, plus re-execution on a starved store (every other block unavailable)",
   text="Seeded search over file DAG shapes x ranges (biased to chunk/interior boundaries, empty and whole-file ranges) via Seek+ReadFull on a fresh reader, via multi-step histories on one reader, and via a MatcherSubset traversal; sharded directories (fanout 8..1024, mined hash-prefix collisions; writers: this builder, boxo incl. insert/remove histories, a mixed-fanout writer) x member/non-member lookups through all three entry points; mixed trees x paths (incl. paths naming no entry) through UnixFSPathSelector; link systems with and without NodeReifier. Every storage request must lie in the allowed set; on the starved store the operation must still return the model's answer.",
   note="Only the upper bound (no over-fetch) is asserted. Trusts boxo's dag-pb/unixfs parsing and spaolacci/murmur3 for the model's hash paths. Where a node does not record a dag-pb child's size the blocks a lazy reader must open to measure it are allowed in addition (raw children never); obtaining the lazy view may request the root only. Also run: files beyond 4 GiB (sparse model), link systems with NodeReifier, one worker per batch in a process with the murmur3 multihash code re-registered."),
 "C06": dict(level="fault_enumeration", ref="DESIGN.md §3 C06",
   technique="deterministic simulation with storage fault injection: requested-set equality against the model on a complete store, then exhaustive single-block fault sweep x 3 fault kinds, k-th-load-fails for every k, and seeded block subsets; every faulted execution must return an error",
   text="Per seeded entity (file DAG, sharded or plain directory, optionally reached through UnixFSPathSelectorBuilder; link system with or without NodeReifier) the three access paths are run fault-free (requested set must equal the entity's block set exactly) and under every single-block fault of the entity x 3 kinds, the same with well-known error values, k-th-load and store-goes-away plans, block subsets, and an access-twice history on one root object.",
   note="Exhaustive per generated DAG, sampled over DAGs. A node returned together with an error is accepted. Trusts the independent model for the entity block set."),
 "C12": dict(level="fault_enumeration", ref="DESIGN.md §3 C12",
   technique="deterministic simulation with storage fault injection: exhaustive single-block unavailability sweep x 4 fault kinds (not-found, I/O error at open, I/O error mid-stream, corrupted bytes failing the hash check), k-th-load-fails-once for every k, seeded 2-3 block subsets; oracle = independent model of what stays reachable",
   text="Per seeded DAG every non-root block is made unavailable in turn with every fault kind (and with well-known error values incl. bare io.EOF, io.ErrUnexpectedEOF, ENOENT PathError, context errors, traversal.SkipMe); plus k-th-load-once, store-goes-away-at-load-k and subset plans. Sequential reads (from offset 0 or after a Seek) must return exactly the bytes before the missing span and then the load error (never EOF, never wrong bytes); lookups crossing a missing shard the load error (never not-found), also when repeated on one node; preload the load error; iteration must terminate, yield each reachable entry once and report one error per missing shard met; after the store recovers the same node must answer correctly.",
   note="Exhaustive per generated DAG, sampled over DAGs. An empty block lying exactly at the position a reader was seeked to is optional. Entry points without an error result are judged for what they can express (Length(): the true count or 0, never a partial count). Beyond storage faults: eight well-known error values, the store going away at load k, real cancellation of the node's context (at a load; between two Reads), histories on one reader / node after the error and after recovery."),
 "C20": dict(level="exploration", ref="DESIGN.md §3 C20",
   technique="deterministic simulation: ordered request log of the simulated block store compared with an independent depth-first link-order walk, each operation repeated on cold nodes in-process",
   text="Seeded search over file DAGs, sharded directories (incl. mixed-fanout) and trees x operations (full read via AsBytes / Read loops, preload reify, MapIterator, Length, entity-selector walk, path traversal with match/preload/entity target); the first-request order must equal the model's pre-order walk on each of 3 repetitions, and all requests must come from one goroutine.",
   note="Go map order inside the library is not owned by the simulator, it is re-drawn per repetition; the oracle is a fixed order so a dependence shows as a mismatch, but only with the probability that the runtime picks a different order."),
 "C10": dict(level="exploration", ref="DESIGN.md §3 C10",
   technique="deterministic simulation: one logical input built repeatedly under seeded schedules (input-stream fragmentation, entry-slice permutations, in-process repetitions re-drawing Go map order, observed via commit order at the simulated store); all (link,size) results must be identical",
   text="Seeded search over contents x chunkers (size-N, rabin, buzhash, default spellings) x widths with 7 fragmentation schedules per input; entry sets (mined hash-prefix collisions, mixed link lengths, aliased targets, invalid-UTF-8 and bucket-label-like names, sets straddling the auto-shard threshold) x permutations x repetitions through BuildUnixFSDirectory, BuildUnixFSShardedDirectory (murmur3 and other hashers) and the quick builder; and 2-3 concurrent builds on one link system under the seeded scheduler against each build alone. No reference value is involved, only equality among builds.",
   note="Map iteration order inside the shard builder is observed, not controlled (distinct commit orders are counted in evidence)."),
 "C13": dict(level="exploration", ref="DESIGN.md §3 C13",
   technique="deterministic simulation with data-fault injection on a trusted simulated disk: bit rot, torn/misdirected reads and grammar-aware rewrites of dag-pb/UnixFS fields of stored blocks (at rest or from the k-th read), every node operation under recover() with event budgets and a wall-clock watchdog confirmed in a fresh process",
   text="Seeded search over DAGs x 1-4 stacked corruptions (17 kinds covering the statement's list and more: type incl. negative values, fanout incl. parent/child mismatch and self-consistent re-fanout, bitfield longer/shorter/inconsistent, hash type, FileSize/BlockSizes missing/extra/negative/packed, names absent/short/duplicated, Tsize absent, links dropped/retargeted/garbage) plus hand-made hostile directories (shard chains deeper than the hash, mixed-fanout chains with very short names, diamond chains with 2^depth paths) x all node operations; link systems with and without NodeReifier. The decoder clause is fed the harvested payloads, raw bytes and messages with extreme field values, and calls the accessors and re-encoder of whatever decoded: that part is plain input generation.",
   note="Cycles are excluded by construction. Work bounds are event budgets (16x data size) - generous, aimed at non-termination rather than constant factors."),
 "C16": dict(level="fault_enumeration", ref="DESIGN.md §3 C16",
   technique="deterministic simulation with write-side fault injection and crash/restart: commit-time children-durable invariant on every prefix of every build's write sequence; exhaustive failure of every write-protocol step (open, torn write, commit), crash at every write event with restart on durable state, disk-full at several sizes, input-stream errors",
   text="Per seeded build (file incl. empty/one-byte/multi-level at widths 2..174, symlink, plain/empty/sharded/auto-sharded directory with present and absent external entries, recursive import of a temp tree rooted at a directory, file or symlink, quick builder) the whole single-fault plan space is enumerated (strided above 150/400 steps, root block always included). Oracles: children durable at every commit; any write fault => error and nil link (also for well-known error values); returned link => closure durable; restart after crash => no dangling builder-written link, and the rebuild on the durable state completes with the undisturbed link; a retry through the same link system after a transient fault behaves like a first build.",
   note="Exhaustive per generated build, sampled over builds. Links to caller-supplied entries are exempt. The quick builder is judged on ordering only (its API panics on failure)."),
 "C17": dict(level="exploration", ref="DESIGN.md §3 C17",
   technique="deterministic simulation of concurrent callers: real goroutines serialized by a seeded scheduler at every storage request and operation boundary, Go race detector with the scheduler's hand-offs hidden (runtime.RaceDisable) so only the library's own synchronisation orders tasks, per-operation equality with the sequential result",
   text="Seeded search over schedules of 2-6 tasks x operation lists (LookupByString of members/non-members/a deep hot name, native Lookup, full MapIterator and native Iterator, Length, AsBytes, own-reader Seek/Read) on one shared node (sharded directory cold or pre-warmed, plain directory, multi-block file; link system with or without NodeReifier). Oracles: no race report attributable to go-unixfsnode; every result equals the result when run alone (computed after the concurrent run, so that nothing is warmed beforehand); no panic, no process death.",
   note="Built with -race (run.sh builds bin/check-race for this property). Code between two park points runs unpreempted; the race detector's vector clocks, not preemption, expose unsynchronised accesses there. Reports whose innermost frame is harness code exit 2, never VIOLATION."),
}

NA = {
 "C01": "Pure round trip over (content, chunker, width, buffer size, writer): no schedule, fault, crash point or interleaving in the statement; fragmentation is absorbed by dependencies, not by anchored code. Its reader half is exercised incidentally by C04's histories.",
 "C02": "Pure function entry-set -> map view; nothing in it depends on a schedule, fault or history.",
 "C03": "Pure function (tree, path, selector) -> matched nodes; only its I/O consequences are simulation-shaped and those are C05(d) and C20.",
 "C07": "Pure differential equality with the reference importer on an input; no fault, schedule or history dimension.",
 "C08": "Pure differential equality; the insert/remove histories drive the reference HAMT, the library under test only reads the final DAG.",
 "C09": "Pure codec agreement on byte strings held in memory.",
 "C11": "Pure arithmetic over a finished DAG.",
 "C14": "Pure type dispatch on a node value.",
 "C15": "Pure map-contract consistency on a link list.",
 "C18": "Pure function of an on-disk tree; the importer calls package os directly so no simulated filesystem can be put behind it without rewriting it, and the statement names no fault. Its write ordering is covered by C16.",
 "C19": "Pure function of (random stream, size); the injected reader is a seed, not a fault surface.",
}

PENDING = {}  # id -> reason, for claimed-in-design checks that are not built yet

def main():
    checks = []
    for pid in sorted(CLAIMED):
        c = CLAIMED[pid]
        checks.append({
            "property_id": pid,
            "quick_cmd": f"./run.sh {pid} quick",
            "thorough_cmd": f"./run.sh {pid} thorough",
            "evidence_file": f"/verif/evidence/{pid}.json",
            "replay_cmd_template": f"./run.sh {pid} replay {{path}}",
            "engine": "sim",
            "level_claimed": {"category": c["level"], "text": c["text"], "design_ref": c["ref"]},
            "level_note": c["note"],
            "technique": c["technique"],
        })
    na = [{"property_id": k, "reason": v} for k, v in sorted({**NA, **PENDING}.items())]
    m = {
        "version": 1,
        "setup_cmd": "./run.sh setup",
        "hooks": {
            "guard": "verif",
            "enable": "go build -tags verif (no guarded source exists in /repo: every seam the properties depend on is an existing interface; the tag is passed for uniformity)",
            "baseline_off_cmd": "cd /repo && GOFLAGS=-mod=mod GOPROXY=off GOSUMDB=off go test -json -vet=off -count=1 -timeout 25m ./...",
            "source_commits": [],
            "add_only": True,
        },
        "engines": [{
            "name": "sim", "path": "/verif/sim, /verif/checks, /verif/cmd/check",
            "serves_properties": sorted(CLAIMED),
            "kind_free_text": "deterministic simulation with fault injection: choice tapes (one seed decides everything, shrinkable, JSON replay), SimStore (simulated content-addressed disk behind ipld LinkSystem: request log, read/write faults, torn writes, crash+restart, corruption), SimSource (fragmenting/failing input reader), SimSched (serialized goroutine scheduler with race-detector-transparent hand-offs), independent reference model of stored DAGs",
        }],
        "checks": checks,
        "not_applicable": na,
        "notes": "Exit codes: 0 held, 1 VIOLATION (with replay file), 2 harness/build trouble (never a verdict). VERIF_SEED selects the batch; VERIF_REPO=<dir> points the build at a scratch copy of the repository (sensitivity runs). known-findings.json lists repaired defects (status fixed: suppress nothing) and any recorded ones.",
    }
    with open(os.path.join(HERE, "MANIFEST.json"), "w") as f:
        json.dump(m, f, indent=1)
        f.write("\n")

if __name__ == "__main__":
    main()
