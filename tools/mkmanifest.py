#!/usr/bin/env python3
"""Regenerates /verif/MANIFEST.json from the table below (single source of truth)."""
import json, os, sys
HERE = os.path.dirname(os.path.dirname(os.path.abspath(__file__)))

CLAIMED = {
 "C04": dict(level="exploration", ref="DESIGN.md §3 C04",
   technique="deterministic simulation: seeded Seek/Read histories of 1-3 interleaved reader clients over a simulated block store, step-by-step comparison with an independent (content,pos) reference model, tape shrinking to a minimal replayable history",
   text="Seeded search over histories x DAG shapes (this builder, boxo balanced/trickle importer, harness-written legal oddities) at tree widths 2..174; every call is compared with a reference reader over content parsed independently from the stored blocks. Sampling, not proof: a clean batch is evidence that no history of the explored shape breaks the ReadSeeker contract.",
   note="Trusts: boxo merkledag/unixfs protobuf parsing for the reference content; go-ipld-prime LinkSystem; well-formed DAGs only; offsets within int64; invalid whence not generated."),
}

NA = {
 "C01": "Pure round trip over (content, chunker, width, buffer size, writer): no schedule, fault, crash point or interleaving in the statement; fragmentation is absorbed by dependencies, not by anchored code. Its reader half is exercised incidentally by C04's histories.",
 "C02": "Pure function entry-set -> map view; nothing in it depends on a schedule, fault or history.",
 "C03": "Pure function (tree, path, selector) -> matched nodes; only its I/O consequences are simulation-shaped and those are C05(d) and C20.",
 "C07": "Pure differential equality with the reference importer on an input; no fault, schedule or history dimension.",
 "C08": "Pure differential equality; the insert/remove histories drive the reference HAMT, the library under test only reads the final DAG.",
 "C09": "Pure codec agreement on byte strings held in memory.",
 "C11": "Pure arithmetic over a finished DAG.",
 "C14": "Pure type dispatch on a node value.",
 "C15": "Pure map-contract consistency on a link list.",
 "C18": "Pure function of an on-disk tree; the importer calls package os directly so no simulated filesystem can be put behind it without rewriting it, and the statement names no fault. Its write ordering is covered by C16.",
 "C19": "Pure function of (random stream, size); the injected reader is a seed, not a fault surface.",
}

PENDING = {k: "claimed in DESIGN.md; check under construction in this round, not yet registered" for k in ["C05","C06","C10","C12","C13","C16","C17","C20"]}  # id -> reason, for claimed-in-design checks that are not built yet

def main():
    checks = []
    for pid in sorted(CLAIMED):
        c = CLAIMED[pid]
        checks.append({
            "property_id": pid,
            "quick_cmd": f"./run.sh {pid} quick",
            "thorough_cmd": f"./run.sh {pid} thorough",
            "evidence_file": f"/verif/evidence/{pid}.json",
            "replay_cmd_template": f"./run.sh {pid} replay {{path}}",
            "engine": "sim",
            "level_claimed": {"category": c["level"], "text": c["text"], "design_ref": c["ref"]},
            "level_note": c["note"],
            "technique": c["technique"],
        })
    na = [{"property_id": k, "reason": v} for k, v in sorted({**NA, **PENDING}.items())]
    m = {
        "version": 1,
        "setup_cmd": "./run.sh setup",
        "hooks": {
            "guard": "verif",
            "enable": "go build -tags verif (no guarded source exists in /repo: every seam the properties depend on is an existing interface; the tag is passed for uniformity)",
            "baseline_off_cmd": "cd /repo && GOFLAGS=-mod=mod GOPROXY=off GOSUMDB=off go test -json -vet=off -count=1 -timeout 25m ./...",
            "source_commits": [],
            "add_only": True,
        },
        "engines": [{
            "name": "sim", "path": "/verif/sim, /verif/checks, /verif/cmd/check",
            "serves_properties": sorted(CLAIMED),
            "kind_free_text": "deterministic simulation with fault injection: choice tapes (one seed decides everything, shrinkable, JSON replay), SimStore (simulated content-addressed disk behind ipld LinkSystem: request log, read/write faults, torn writes, crash+restart, corruption), SimSource (fragmenting/failing input reader), SimSched (serialized goroutine scheduler with race-detector-transparent hand-offs), independent reference model of stored DAGs",
        }],
        "checks": checks,
        "not_applicable": na,
        "notes": "Exit codes: 0 held, 1 VIOLATION (with replay file), 2 harness/build trouble (never a verdict). VERIF_SEED selects the batch; VERIF_REPO=<dir> points the build at a scratch copy of the repository (sensitivity runs). known-findings.json lists repaired defects (status fixed: suppress nothing) and any recorded ones.",
    }
    with open(os.path.join(HERE, "MANIFEST.json"), "w") as f:
        json.dump(m, f, indent=1)
        f.write("\n")

if __name__ == "__main__":
    main()
