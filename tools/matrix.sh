#!/bin/bash
# matrix.sh [seeded dirs...]: runs every check (quick; with MATRIX_ONLY_CAUGHT=1 only the checks named in
# meta.json's caught_now_by) against every seeded change in scratch worktrees
# and writes seeded/<name>/matrix.txt with one "check rc classes" line per property.
# The checks are run from a snapshot of /verif's HEAD (a git worktree), so that editing /verif while the
# matrix runs (hours) does not mix versions. MATRIX_P = parallel changes (default 3).
export GOFLAGS=-mod=mod GOPROXY=off GOSUMDB=off GOTOOLCHAIN=local
cd /verif
SNAP=$(mktemp -d /tmp/verif-snap-XXXXXX); rmdir "$SNAP"
git worktree add -q "$SNAP" HEAD || exit 2
trap 'git -C /verif worktree remove --force "$SNAP"' EXIT
export SNAP
dirs=("$@"); [ ${#dirs[@]} -eq 0 ] && dirs=(seeded/C*-* seeded/W*-*-*)
one() {
  d="$1"; name=$(basename "$d")
  [ -f "/verif/$d/patch.diff" ] || return
  WT=$(mktemp -d /tmp/mx-XXXXXX); rmdir "$WT"
  git -C /repo worktree add -q "$WT" HEAD || return
  if ! (cd "$WT" && git apply "/verif/$d/patch.diff"); then echo "patch does not apply" > "/verif/$d/matrix.txt"; git -C /repo worktree remove --force "$WT"; return; fi
  : > "/verif/$d/matrix.txt.tmp"
  ids="C04 C05 C06 C10 C12 C13 C16 C17 C20"
  if [ "${MATRIX_ONLY_CAUGHT:-0}" = 1 ]; then
    # only the checks meta.json names under caught_now_by (a re-confirmation at the current
    # version of the checks, not the full cross-matrix)
    ids=$(python3 -c "import json,re,sys; print(' '.join(re.findall(r'C\d\d', str(json.load(open('/verif/$d/meta.json')).get('caught_now_by','')))))")
    [ -z "$ids" ] && ids="C04 C05 C06 C10 C12 C13 C16 C17 C20"
  fi
  for id in $ids; do
    out=$(cd "$SNAP" && VERIF_OUT=/tmp/mx-out-$name VERIF_REPO="$WT" ./run.sh $id quick 2>&1); rc=$?
    cls=$(echo "$out" | grep -E "^violation class=|^class: " | sed -E 's/^violation class=([^:]*):.*/\1/; s/^class: //' | sort -u | tr '\n' ' ')
    echo "$id rc=$rc $cls" >> "/verif/$d/matrix.txt.tmp"
  done
  mv "/verif/$d/matrix.txt.tmp" "/verif/$d/matrix.txt"
  git -C /repo worktree remove --force "$WT"; rm -rf "$WT" /tmp/mx-out-$name
}
export -f one
printf '%s\n' "${dirs[@]}" | xargs -P "${MATRIX_P:-3}" -I{} bash -c 'one {}'
