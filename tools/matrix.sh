#!/bin/bash
# matrix.sh [seeded dirs...]: runs every check (quick) against every seeded change in scratch worktrees
# and writes seeded/<name>/matrix.txt with one "check rc" line per property.
export GOFLAGS=-mod=mod GOPROXY=off GOSUMDB=off GOTOOLCHAIN=local
cd /verif
dirs=("$@"); [ ${#dirs[@]} -eq 0 ] && dirs=(seeded/C*-*)
one() {
  d="$1"; name=$(basename "$d")
  WT=$(mktemp -d /tmp/mx-XXXXXX); rmdir "$WT"
  git -C /repo worktree add -q "$WT" HEAD || return
  if ! (cd "$WT" && git apply "/verif/$d/patch.diff"); then echo "patch does not apply" > "/verif/$d/matrix.txt"; git -C /repo worktree remove --force "$WT"; return; fi
  : > "/verif/$d/matrix.txt"
  for id in C04 C05 C06 C10 C12 C13 C16 C17 C20; do
    out=$(VERIF_OUT=/tmp/mx-out-$name VERIF_REPO="$WT" ./run.sh $id quick 2>&1); rc=$?
    cls=$(echo "$out" | grep -E "^violation class=|^class: " | sed -E 's/^violation class=([^:]*):.*/\1/; s/^class: //' | sort -u | tr '\n' ' ')
    echo "$id rc=$rc $cls" >> "/verif/$d/matrix.txt"
  done
  git -C /repo worktree remove --force "$WT"; rm -rf "$WT" /tmp/mx-out-$name
}
export -f one
printf '%s\n' "${dirs[@]}" | xargs -P 3 -I{} bash -c 'one {}'
