#!/bin/bash
# rerecord.sh: re-records every regression replay under regress/ with the current version of the checks.
# For each repaired finding a scratch worktree of /repo HEAD is made in which ONLY that finding's fix
# commit is reverted (git revert -n), the check is run against it, and the minimised replay of the
# finding's class is kept. (Running against the pinned original tree would also work but there several
# defects interact - e.g. the quadratic re-reading under NodeReifier makes runs crawl.)
set -u
cd "$(dirname "$0")/.."
OUT=$(mktemp -d /tmp/rerec-out-XXXXXX)
WTS=()
cleanup() { for w in "${WTS[@]}"; do git -C /repo worktree remove --force "$w" 2>/dev/null; done; rm -rf "$OUT"; }
trap cleanup EXIT
fail=0
while read -r id name class fix; do
  [ -z "$id" ] && continue
  key="$id-$fix"
  if [ ! -d "$OUT/$key" ]; then
    mkdir -p "$OUT/$key"
    WT=$(mktemp -d /tmp/rerec-XXXXXX); rmdir "$WT"
    git -C /repo worktree add -q "$WT" HEAD || exit 2
    WTS+=("$WT")
    if [ -f "regress/defects/$fix.diff" ]; then
      # a later fix touches the same lines: the defect is re-introduced by a hand-made patch instead
      (cd "$WT" && git apply "$OLDPWD/regress/defects/$fix.diff") || { echo "regress/defects/$fix.diff does not apply"; exit 2; }
    elif ! git -C "$WT" revert -n "$fix" >/dev/null 2>&1; then echo "cannot revert $fix cleanly (add regress/defects/$fix.diff)"; exit 2; fi
    VERIF_RUN_TIMEOUT_S=30 VERIF_OUT="$OUT/$key" VERIF_REPO="$WT" ./run.sh "$id" quick > "$OUT/$key/log" 2>&1
  fi
  f=$(grep -lF "\"class\": \"$class" "$OUT/$key"/replays/*.json 2>/dev/null | head -1)
  if [ -z "$f" ]; then echo "NOT REPRODUCED: $id $class with $fix reverted"; tail -5 "$OUT/$key/log"; fail=1; continue; fi
  mkdir -p "regress/$id"; cp "$f" "regress/$id/$name.json"; echo "re-recorded regress/$id/$name.json ($class, $fix reverted)"
done <<'TABLE'
C04 neg-seek-single-block c04/unusable-after-failed-seek 892204f
C04 neg-seek-multi-block c04/negative-seek-accepted 892204f
C06 empty-first-child-not-preloaded c06/under-fetch ea64dfb
C06 raw-typed-file-not-preloaded c06/under-fetch be41ecb
C13 bitfield-longer-than-fanout-panic c13/panic@hamt.bitField 11ed7b3
C13 child-fanout-mismatch-name-strip-panic c13/panic@hamt.stringTransformer.transformNameNode c2cd645
C16 symlink-link-with-commit-error c16/link-returned-with-error@BuildUnixFSSymlink 259ff00
C16 empty-file-link-with-commit-error c16/link-returned-with-error@BuildUnixFSFile 259ff00
C17 race-cachedLength-shardCache c17/data-race@hamt. 832597c
C05 node-reifier-double-wrap-overfetch c05/file/over-fetch 66de0e2
C20 node-reifier-preload-noop c20/block-set-mismatch/ c4568c0
C12 unmeasurable-child-skipped-as-empty c12/file/eof-instead-of-error d112abd
C12 load-failing-with-io-eof-truncates-read c12/file/eof-instead-of-error cc90727
C13 non-list-links-nil-iterator-panic c13/panic@file.(*shard 6631cf7
TABLE
exit $fail
