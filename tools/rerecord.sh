#!/bin/bash
# rerecord.sh: re-records every regression replay under regress/ with the current version of the checks,
# by running each check against the ORIGINAL tree (the pinned snapshot commit, where all repaired
# defects are still present) and keeping, per finding class, the minimised replay it produces.
set -u
cd "$(dirname "$0")/.."
BASE=${BASE:-0c5d337}
WT=$(mktemp -d /tmp/rerec-XXXXXX); rmdir "$WT"
git -C /repo worktree add -q "$WT" "$BASE" || exit 2
OUT=$(mktemp -d /tmp/rerec-out-XXXXXX)
trap 'git -C /repo worktree remove --force "$WT"; rm -rf "$OUT"' EXIT
# regress file -> class it must show
while read -r id name class; do
  [ -z "$id" ] && continue
  if [ ! -d "$OUT/$id" ]; then
    mkdir -p "$OUT/$id"
    VERIF_RUN_TIMEOUT_S=8 VERIF_OUT="$OUT/$id" VERIF_REPO="$WT" ./run.sh "$id" quick > "$OUT/$id/log" 2>&1
  fi
  f=$(grep -l "\"class\": \"$class" "$OUT/$id"/replays/*.json 2>/dev/null | head -1)
  if [ -z "$f" ]; then echo "NOT REPRODUCED: $id $class (see $OUT/$id/log)"; cat "$OUT/$id/log" | tail -5; trap - EXIT; exit 1; fi
  mkdir -p "regress/$id"; cp "$f" "regress/$id/$name.json"; echo "re-recorded regress/$id/$name.json ($class)"
done <<'TABLE'
C04 neg-seek-single-block c04/unusable-after-failed-seek
C04 neg-seek-multi-block c04/negative-seek-accepted
C06 empty-first-child-not-preloaded c06/under-fetch
C13 bitfield-longer-than-fanout-panic c13/panic@hamt.bitField
C13 child-fanout-mismatch-name-strip-panic c13/panic@hamt.stringTransformer.transformNameNode
C16 symlink-link-with-commit-error c16/link-returned-with-error@BuildUnixFSSymlink
C16 empty-file-link-with-commit-error c16/link-returned-with-error@BuildUnixFSFile
C17 race-cachedLength-shardCache c17/data-race@hamt.
C05 node-reifier-double-wrap-overfetch c05/file/over-fetch
C20 node-reifier-preload-noop c20/block-set-mismatch/dir
C12 unmeasurable-child-skipped-as-empty c12/file/eof-instead-of-error
TABLE
