package checks

import (
	"fmt"
	"os"
	"strings"

	"verif/sim/sched"
)

// The race detector writes its reports to $GORACE's log_path + "." + pid.
// These helpers read what was appended since a mark and classify each report.

// RaceBuild reports whether this binary carries the race detector.
func RaceBuild() bool { return sched.RaceEnabled }

func raceLogPath() string {
	for _, f := range strings.Fields(os.Getenv("GORACE")) {
		if strings.HasPrefix(f, "log_path=") {
			return fmt.Sprintf("%s.%d", strings.TrimPrefix(f, "log_path="), os.Getpid())
		}
	}
	return ""
}

func raceLogMark() int64 {
	p := raceLogPath()
	if p == "" {
		return 0
	}
	fi, err := os.Stat(p)
	if err != nil {
		return 0
	}
	return fi.Size()
}

// raceReportsSince splits new reports into those attributable to the library,
// to the harness, and to neither.
func raceReportsSince(mark int64) (sut, harness, foreign []string) {
	p := raceLogPath()
	if p == "" {
		return
	}
	b, err := os.ReadFile(p)
	if err != nil || int64(len(b)) <= mark {
		return
	}
	text := string(b[mark:])
	for _, blk := range strings.Split(text, "==================") {
		if !strings.Contains(blk, "WARNING: DATA RACE") {
			continue
		}
		switch classifyRace(blk) {
		case "sut":
			sut = append(sut, blk)
		case "harness":
			harness = append(harness, blk)
		default:
			foreign = append(foreign, blk)
		}
	}
	return
}

// accessStacks returns the function names of the two access stacks of a
// report (innermost first), ignoring the "Goroutine N created at" sections.
func accessStacks(blk string) [][]string {
	var stacks [][]string
	var cur []string
	in := false
	flush := func() {
		if in {
			stacks = append(stacks, cur)
		}
		cur, in = nil, false
	}
	for _, line := range strings.Split(blk, "\n") {
		t := strings.TrimSpace(line)
		switch {
		case strings.HasPrefix(t, "Read at ") || strings.HasPrefix(t, "Write at ") || strings.HasPrefix(t, "Previous read at ") || strings.HasPrefix(t, "Previous write at ") || strings.HasPrefix(t, "Atomic "), strings.HasPrefix(t, "Previous atomic "):
			flush()
			in = true
		case strings.HasPrefix(t, "Goroutine ") && strings.Contains(t, "created at"):
			flush()
		case t == "":
			flush()
		case in && strings.HasPrefix(line, "  ") && !strings.HasPrefix(line, "      ") && strings.HasSuffix(t, ")"):
			cur = append(cur, t)
		}
	}
	flush()
	return stacks
}

func isRuntimeFrame(f string) bool {
	return strings.HasPrefix(f, "runtime.") || strings.HasPrefix(f, "internal/") || strings.HasPrefix(f, "sync.") || strings.HasPrefix(f, "sync/atomic.")
}

func classifyRace(blk string) string {
	stacks := accessStacks(blk)
	hasSUT := false
	for _, st := range stacks {
		for _, f := range st {
			if strings.HasPrefix(f, sutPrefix) {
				hasSUT = true
			}
		}
		for _, f := range st {
			if isRuntimeFrame(f) {
				continue
			}
			if strings.HasPrefix(f, "verif/") || strings.HasPrefix(f, "main.") {
				return "harness"
			}
			break
		}
	}
	if hasSUT {
		return "sut"
	}
	return "foreign"
}

// raceSite names the innermost library frame of the report.
func raceSite(blk string) string {
	for _, st := range accessStacks(blk) {
		for _, f := range st {
			if strings.HasPrefix(f, sutPrefix) {
				f = strings.TrimPrefix(strings.TrimPrefix(f, sutPrefix), "/")
				return strings.TrimSuffix(f, "()")
			}
		}
	}
	return "unknown"
}

func trimReport(blk string) string {
	lines := strings.Split(strings.TrimSpace(blk), "\n")
	if len(lines) > 40 {
		lines = lines[:40]
	}
	return strings.Join(lines, "\n")
}
