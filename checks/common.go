// Package checks holds one workload + oracle per claimed property, all driven
// by choice tapes so that a run is a pure function of its tapes and the code
// under test.
package checks

import (
	"context"
	"fmt"
	"runtime"
	"sort"
	"strconv"
	"strings"

	"github.com/ipld/go-ipld-prime/datamodel"

	"verif/sim/store"
	"verif/sim/tape"
	"verif/sim/world"
)

// Tier selects budgets.
type Tier string

const (
	Quick    Tier = "quick"
	Thorough Tier = "thorough"
)

// Violation is a failed oracle.
type Violation struct {
	// Class is stable across shrinking: oracle + failing call site, never
	// sizes or CIDs. Known findings are matched on it.
	Class  string `json:"class"`
	Msg    string `json:"msg"`
	Detail any    `json:"detail,omitempty"`
}

// Result is what one run reports.
type Result struct {
	Violation *Violation
	// Skipped: the scenario's precondition failed (e.g. the writer under test
	// could not produce the DAG); counted as undecidable, never judged.
	Skipped    bool
	SkipReason string
	Scenario   any // decoded scenario, human readable
	Events     int // seam events = simulated time
	Execs      int // executions inside this run (fault sweeps run many)
	Sig        uint64
	NonTrivial bool
	Probes     map[string]int
	Fired      map[string]int
	Excerpt    []store.Event
}

func (r *Result) probe(name string) {
	if r.Probes == nil {
		r.Probes = map[string]int{}
	}
	r.Probes[name]++
}

func (r *Result) probeN(name string, n int) {
	if n == 0 {
		return
	}
	if r.Probes == nil {
		r.Probes = map[string]int{}
	}
	r.Probes[name] += n
}

func (r *Result) fired(m map[string]int) {
	if r.Fired == nil {
		r.Fired = map[string]int{}
	}
	for k, v := range m {
		r.Fired[k] += v
	}
}

func (r *Result) fail(class, format string, args ...any) {
	if r.Violation == nil {
		r.Violation = &Violation{Class: class, Msg: fmt.Sprintf(format, args...)}
	}
}

// Check is one property's machinery.
type Check interface {
	ID() string
	Level() string // exploration | fault_enumeration
	Technique() string
	Rule() string
	Assumptions() []string
	RealStub() map[string]string
	// Runs is the number of seeded runs per tier.
	Runs(t Tier) int
	// RecordWidths names tapes made of fixed-width records.
	RecordWidths() map[string]int
	// Run executes one simulated run. It must be a pure function of the tapes
	// and the code under test.
	Run(ts *tape.Set, t Tier) *Result
	// RequiredProbes must all be non-zero over a thorough batch.
	RequiredProbes() []string
}

var registry = map[string]Check{}

func register(c Check) { registry[c.ID()] = c }

// Get returns a registered check.
func Get(id string) (Check, bool) { c, ok := registry[id]; return c, ok }

// IDs lists registered checks.
func IDs() []string {
	var ids []string
	for k := range registry {
		ids = append(ids, k)
	}
	sort.Strings(ids)
	return ids
}

// ---------------------------------------------------------------- helpers

const sutPrefix = "github.com/ipfs/go-unixfsnode"

// guard runs f and converts a panic into (panicked, class, message). The
// class names the innermost frame inside go-unixfsnode so that different
// panics are different findings.
func guard(f func()) (panicked bool, site string, msg string) {
	defer func() {
		if r := recover(); r != nil {
			panicked = true
			msg = fmt.Sprint(r)
			site = sutFrame()
		}
	}()
	f()
	return
}

// sutFrame finds the innermost go-unixfsnode frame of the current
// (panicking) stack.
func sutFrame() string {
	pcs := make([]uintptr, 64)
	n := runtime.Callers(3, pcs)
	frames := runtime.CallersFrames(pcs[:n])
	for {
		fr, more := frames.Next()
		if strings.HasPrefix(fr.Function, sutPrefix) {
			fn := strings.TrimPrefix(fr.Function, sutPrefix)
			return strings.TrimPrefix(fn, "/")
		}
		if !more {
			break
		}
	}
	return "outside-sut"
}

// fnv mixes values into a running FNV-1a hash.
func fnvMix(h uint64, vs ...uint64) uint64 {
	if h == 0 {
		h = 14695981039346656037
	}
	for _, v := range vs {
		for i := 0; i < 8; i++ {
			h ^= (v >> (8 * uint(i))) & 0xff
			h *= 1099511628211
		}
	}
	return h
}

// sigOfLog is the abstract trace signature: the sequence of (event kind,
// outcome, task) with CIDs and sizes abstracted away.
func sigOfLog(h uint64, log []store.Event) uint64 {
	for _, e := range log {
		h = fnvMix(h, tape.HashString(e.Kind), tape.HashString(e.Outcome), uint64(e.Task))
	}
	return h
}

// sigOfLogBag folds the events of a log order-insensitively.
func sigOfLogBag(h uint64, log []store.Event) uint64 {
	var sum uint64
	for _, e := range log {
		sum += fnvMix(0, tape.HashString(e.Kind), tape.HashString(e.Outcome), uint64(e.Task))
	}
	return fnvMix(h, sum, uint64(len(log)))
}

func excerpt(log []store.Event, n int) []store.Event {
	if len(log) <= n {
		return append([]store.Event(nil), log...)
	}
	return append([]store.Event(nil), log[len(log)-n:]...)
}

// fragFn returns a deterministic short-read schedule from one seed: the
// returned function yields the size of the next fragment.
func fragFn(seed uint64, mode int) func(int) int {
	if mode == 0 {
		return nil
	}
	r := tape.NewSplitMix(seed)
	return func(rem int) int {
		switch mode {
		case 1: // one byte at a time
			return 1
		case 2: // random fragments, occasional empty read
			v := r.Next()
			if v%11 == 0 {
				return 0
			}
			return 1 + int(v%uint64(rem))
		default: // mostly whole, sometimes a tiny fragment
			v := r.Next()
			if v%4 == 0 {
				return 1 + int(v>>8)%7
			}
			return rem
		}
	}
}

// newWorld builds the link system of a run. withNodeReifier selects the
// configuration in which LinkSystem.NodeReifier is unixfsnode.Reify (every
// Load returns a lazily reified node), as boxo's gateway back-ends do.
func newWorld(st *store.Store, trusted, withNodeReifier bool) *world.World {
	if withNodeReifier {
		w := world.NewWithNodeReifier(st, trusted)
		w.Ctx = context.Background()
		return w
	}
	// no context: Reify(LinkContext{}, ...) is what callers without one do
	return world.New(st, trusted)
}

// newDerivedWorld: reifiers installed on a base link system, the run works on
// an instrumented copy of it (see world.NewDerived).
func newDerivedWorld(st *store.Store, trusted bool) *world.World {
	return world.NewDerived(st, trusted)
}

func min(a, b int) int {
	if a < b {
		return a
	}
	return b
}

// segmentFor is the path segment a selector or path parser produces for a
// name: an all-digit name in canonical form becomes an INDEX segment (that is
// what datamodel.ParsePathSegment-style callers and list-aware code build), any
// other name a string segment. Both must find the same entry.
func segmentFor(name string) datamodel.PathSegment {
	if i, err := strconv.ParseInt(name, 10, 64); err == nil && i >= 0 && strconv.FormatInt(i, 10) == name {
		return datamodel.PathSegmentOfInt(i)
	}
	return datamodel.PathSegmentOfString(name)
}
