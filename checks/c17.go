package checks

import (
	"bytes"
	"context"
	"crypto/sha256"
	"fmt"
	"io"
	"os"
	"sort"
	"strings"

	"github.com/ipfs/go-cid"
	unixfsnode "github.com/ipfs/go-unixfsnode"
	"github.com/ipfs/go-unixfsnode/file"
	"github.com/ipfs/go-unixfsnode/hamt"
	"github.com/ipfs/go-unixfsnode/iter"
	dagpb "github.com/ipld/go-codec-dagpb"
	"github.com/ipld/go-ipld-prime/datamodel"
	"github.com/ipld/go-ipld-prime/linking"
	cidlink "github.com/ipld/go-ipld-prime/linking/cid"

	"verif/sim/dagmodel"
	"verif/sim/gen"
	"verif/sim/sched"
	"verif/sim/store"
	"verif/sim/tape"
	"verif/sim/world"
)

// C17 — reified nodes can be read from several goroutines at once.
type c17 struct{}

func init() { register(c17{}) }

func (c17) ID() string    { return "C17" }
func (c17) Level() string { return "exploration" }
func (c17) Technique() string {
	return "deterministic simulation of concurrent callers: 2-6 real goroutines share one reified node, a seeded scheduler releases exactly one of them at a time at every storage request and operation boundary; the Go race detector observes the run with the scheduler's hand-offs hidden (runtime.RaceDisable), so only the library's own synchronisation orders the tasks; every result is compared with the same operation run alone"
}
func (c17) Rule() string {
	return "one evaluation = one seeded schedule of 2-6 tasks (each a tape-drawn list of LookupByString / full MapIterator / Length / AsBytes / own-reader Seek+Read operations) over one shared node instance (sharded directory with cold or pre-warmed shard cache, or multi-block file); non-trivial = at least two tasks were interleaved inside an operation (a task was parked at a storage request while another ran); distinct = distinct schedule trace (sequence of released task ids) x operation kinds"
}
func (c17) Assumptions() []string {
	a := []string{
		"the shared node is immutable for its users, so linearizability degenerates to per-operation equality with the sequential result",
		"a race report counts for the property when an access stack contains a go-unixfsnode frame and the innermost non-runtime frame of neither access is harness code; a report whose innermost frame is harness code is a harness defect (exit 2, never VIOLATION)",
		"park points are the storage requests and operation boundaries; code between two park points runs without preemption (the race detector, not the schedule, exposes unsynchronised accesses there)",
	}
	if !sched.RaceEnabled {
		a = append(a, "THIS BINARY WAS BUILT WITHOUT -race: only result equality and panics were decided")
	}
	return a
}
func (c17) RealStub() map[string]string {
	return realStub("goroutines are real; which one runs is decided by SimSched from the sched tape; Go runtime race detector real")
}
func (c17) Runs(t Tier) int {
	if t == Thorough {
		return 20000
	}
	return 1200
}
func (c17) RecordWidths() map[string]int { return map[string]int{"ops": 3} }
func (c17) RequiredProbes() []string {
	return []string{"dir-cold", "dir-warm", "file-node", "plain-dir-node", "linksystem-with-node-reifier", "two-tasks-parked-on-same-shard-cold", "length-concurrent-with-lookup", "iteration-concurrent-with-lookup", "readers-interleaved", "tasks>=4", "concurrent-callers-with-unavailable-block"}
}

type c17Scenario struct {
	Node  string     `json:"node"`
	Spec  string     `json:"spec"`
	Warm  bool       `json:"warm_cache"`
	Tasks [][]string `json:"tasks"`
	Trace string     `json:"schedule_trace,omitempty"`
	Race  string     `json:"race_report,omitempty"`
}

type c17op struct {
	kind string // lookup | iterate | length | asbytes | reader
	arg  string
	seed uint64
}

// runOp executes one operation and returns a canonical result string.
func c17RunOp(n datamodel.Node, op c17op, y func()) string {
	switch op.kind {
	case "lookup":
		v, err := n.LookupByString(op.arg)
		if err != nil {
			if isNotFoundResult(err) {
				return "notfound"
			}
			return "err:" + err.Error()
		}
		l, err := v.AsLink()
		if err != nil {
			return "err:aslink:" + err.Error()
		}
		return "link:" + l.String()
	case "length":
		return fmt.Sprintf("len:%d", n.Length())
	case "lookup-native":
		nl, ok := n.(interface {
			Lookup(dagpb.String) dagpb.Link
		})
		if !ok {
			return "err:no-native-lookup"
		}
		nb := dagpb.Type.String.NewBuilder()
		_ = nb.AssignString(op.arg)
		l := nl.Lookup(nb.Build().(dagpb.String))
		if l == nil {
			return "native:nil"
		}
		return "native:" + l.Link().String()
	case "iterate-native":
		ni, ok := n.(interface{ Iterator() *iter.UnixFSDir__Itr })
		if !ok {
			return "err:no-native-iterator"
		}
		it := ni.Iterator()
		var items []string
		for steps := 0; !it.Done() && steps < 100000; steps++ {
			k, v := it.Next()
			if k == nil || v == nil {
				items = append(items, "<nil>")
				continue
			}
			items = append(items, k.String()+"="+v.Link().String())
		}
		sort.Strings(items)
		h := sha256.Sum256([]byte(strings.Join(items, "\n")))
		return fmt.Sprintf("niter:%d:%x", len(items), h[:8])
	case "iterate":
		it := n.MapIterator()
		var items []string
		errs := 0
		for steps := 0; !it.Done() && steps < 100000; steps++ {
			k, v, err := it.Next()
			if y != nil && steps%7 == 3 {
				y() // other tasks' iterators over the same node advance in between
			}
			if err != nil {
				errs++
				continue
			}
			ks, _ := k.AsString()
			l, _ := v.AsLink()
			items = append(items, ks+"="+l.String())
		}
		// order matters too: an iterator must not be disturbed by another one
		h := sha256.Sum256([]byte(strings.Join(items, "\n")))
		return fmt.Sprintf("iter:%d:%d:%x", len(items), errs, h[:8])
	case "asbytes":
		b, err := n.AsBytes()
		h := sha256.Sum256(b)
		return fmt.Sprintf("bytes:%d:%x:%v", len(b), h[:8], err)
	case "reader":
		lb, ok := n.(datamodel.LargeBytesNode)
		if !ok {
			return "err:not-large-bytes"
		}
		rs, err := lb.AsLargeBytes()
		if err != nil {
			return "err:" + err.Error()
		}
		r := tape.NewSplitMix(op.seed)
		hh := sha256.New()
		for i := 0; i < 6; i++ {
			v := r.Next()
			switch v % 3 {
			case 0:
				off, err := rs.Seek(-int64((v>>8)%700), io.SeekEnd)
				fmt.Fprintf(hh, "se:%d:%v;", off, err)
			case 1:
				off, err := rs.Seek(int64((v>>8)%900), io.SeekStart)
				fmt.Fprintf(hh, "ss:%d:%v;", off, err)
			default:
				buf := make([]byte, 1+(v>>8)%200)
				n, err := rs.Read(buf)
				fmt.Fprintf(hh, "rd:%d:%x:%v;", n, buf[:n], err)
			}
			if y != nil {
				y() // operation-internal boundary: other readers may run here
			}
		}
		return fmt.Sprintf("reader:%x", hh.Sum(nil)[:8])
	}
	return "err:unknown-op"
}

func (c17) Run(ts *tape.Set, tier Tier) *Result {
	res := &Result{Execs: 1}
	shape := ts.T("shape")
	nodePick := shape.Pick(3, 2, 1)
	isFile := nodePick == 1
	isPlain := nodePick == 2
	nTasks := 2 + shape.Pick(4, 3, 2, 1, 1)
	warm := shape.Intn(3) == 2
	nodeReifier := shape.Intn(3) == 2
	st := store.New()
	sc := &c17Scenario{Warm: warm}
	res.Scenario = sc
	var root cid.Cid
	var names []string
	if isFile {
		spec := gen.DrawFileSpec(shape, gen.FileOpts{MaxSize: 3 << 10, AllowOdd: true, AllowNoSizes: true, MultiBlock: true})
		r, _, err := gen.WriteFile(st, spec)
		if err != nil {
			res.Skipped, res.SkipReason = true, err.Error()
			return res
		}
		root = r
		sc.Node, sc.Spec = "file", spec.String()
		res.probe("file-node")
	} else if isPlain {
		// a basic (unsharded) directory: one block, but possibly many links
		n := []int{3, 40, 70, 150, 300}[shape.Intn(5)]
		ents := map[string]cid.Cid{}
		sizes := map[string]uint64{}
		for i := 0; i < n; i++ {
			nm := fmt.Sprintf("p%03d", i)
			ents[nm] = gen.EntryTarget(st, nm)
			sizes[nm] = 1
			names = append(names, nm)
		}
		root = gen.WritePlainDir(st, ents, sizes, shape.Intn(2) == 0)
		sc.Node, sc.Spec = "plain-dir", fmt.Sprintf("entries=%d", n)
		dupPick, dupAt := shape.Intn(3), shape.Raw()
		if n >= 16 && dupPick == 0 {
			// the name most lookups ask for appears a second time, further on,
			// with another target: a name resolves to the FIRST link carrying
			// it, whatever else was looked up on the node before
			var links []gen.NamedLink
			for _, nm := range names {
				links = append(links, gen.NamedLink{Name: nm, Cid: ents[nm]})
			}
			hot := names[len(names)/2]
			dup := gen.NamedLink{Name: hot, Cid: gen.EntryTarget(st, "second link named "+hot)}
			at := len(links)/2 + 1 + int(dupAt%uint64(len(links)-len(links)/2))
			links = append(links[:at], append([]gen.NamedLink{dup}, links[at:]...)...)
			root = gen.WriteDirLinks(st, links)
			sc.Spec += " with a repeated name"
			res.probe("plain-dir-with-repeated-name")
		}
		res.probe("plain-dir-node")
	} else {
		maxN := 120
		if tier == Thorough {
			maxN = 400
		}
		spec := gen.DrawDirSpec(shape, gen.DirOpts{MaxN: maxN})
		r, entries, err := gen.WriteShardedDir(st, spec)
		if err != nil {
			res.Skipped, res.SkipReason = true, err.Error()
			return res
		}
		root = r
		for n := range entries {
			names = append(names, n)
		}
		sort.Strings(names)
		sc.Node, sc.Spec = "dir", spec.String()
		if warm {
			res.probe("dir-warm")
		} else {
			res.probe("dir-cold")
		}
	}
	if nTasks >= 4 {
		res.probe("tasks>=4")
	}

	// ---- operation lists (3 cells per op)
	ops := ts.T("ops")
	taskOps := make([][]c17op, nTasks)
	var hotName string
	if isPlain {
		hotName = names[len(names)/2]
	}
	if !isFile && !isPlain && len(names) > 0 {
		// a name deep in the trie: tasks looking it up at the same time park on the same shard
		if m, err := dagmodel.BuildDir(st, root); err == nil {
			best := -1
			for _, e := range m.Order {
				if len(e.Under) > best {
					best, hotName = len(e.Under), e.Name
				}
			}
		}
	}
	for t := 0; t < nTasks; t++ {
		n := 1 + shape.Intn(5)
		for i := 0; i < n; i++ {
			k, a, b := ops.Intn(10), ops.Raw(), ops.Raw()
			var op c17op
			if isFile {
				switch {
				case k < 6:
					op = c17op{kind: "reader", seed: a}
				default:
					op = c17op{kind: "asbytes"}
				}
			} else {
				switch {
				case k < 3:
					op = c17op{kind: "lookup", arg: names[int(a%uint64(len(names)))]}
				case k < 5:
					op = c17op{kind: "lookup", arg: hotName}
				case k < 6:
					op = c17op{kind: "lookup", arg: fmt.Sprintf("absent%d", b%50)}
				case k < 7:
					op = c17op{kind: "iterate"}
				case k < 8:
					if b%2 == 0 {
						op = c17op{kind: "iterate-native"}
					} else {
						op = c17op{kind: "lookup-native", arg: names[int(a%uint64(len(names)))]}
					}
				default:
					op = c17op{kind: "length"}
				}
			}
			taskOps[t] = append(taskOps[t], op)
		}
	}
	for _, tl := range taskOps {
		var ss []string
		for _, o := range tl {
			s := o.kind
			if o.arg != "" {
				s += "(" + o.arg + ")"
			}
			ss = append(ss, s)
		}
		sc.Tasks = append(sc.Tasks, ss)
	}

	// ---- optionally one block of the entity is persistently unavailable, in
	// the concurrent run and in the sequential reference alike (a fixed error
	// value, so that results are comparable): concurrency must not change what
	// a failing load does to each caller
	var faulted cid.Cid
	if faultPick := shape.Intn(4); faultPick == 3 {
		info, order := buildInfo(st, root)
		_ = info
		if len(order) > 1 {
			faulted = order[1+shape.Intn(len(order)-1)]
			res.probe("concurrent-callers-with-unavailable-block")
		}
	} else {
		shape.Skip(1)
	}
	errUnavailable := fmt.Errorf("block unavailable (injected, fixed text)")
	if faulted.Defined() {
		st.ReadPolicy = func(_ int, c cid.Cid) *store.ReadFault {
			if c.Equals(faulted) {
				return &store.ReadFault{Kind: store.EIOOpen, Err: errUnavailable}
			}
			return nil
		}
	}

	// ---- the concurrent run
	blocks := st.Snapshot()
	schedTape := ts.T("sched")
	sch := sched.New(func(n int) int { return schedTape.Intn(n) })
	ls := cidlink.DefaultLinkSystem()
	parkedOn := make([]string, nTasks) // written by the task itself, read by nobody else during the run
	sameShardCold := false
	loadsInFlight := make([]cid.Cid, nTasks)
	ls.StorageReadOpener = func(_ linking.LinkContext, l datamodel.Link) (io.Reader, error) {
		c := l.(cidlink.Link).Cid
		c17NoteLoad(sch, loadsInFlight, c, &sameShardCold)
		sch.Yield()
		c17NoteLoad(sch, loadsInFlight, cid.Undef, nil)
		if faulted.Defined() && c.Equals(faulted) {
			return nil, errUnavailable
		}
		data, ok := blocks[c.KeyString()]
		if !ok {
			return nil, fmt.Errorf("block %s not found", c)
		}
		return bytes.NewReader(data), nil
	}
	_ = parkedOn
	// "bare": NodeReifier = Reify is ALL the link system has of this library
	// (no named reifiers registered), and the shared node is made with the
	// package constructors from a substrate loaded elsewhere - what an
	// application does that never uses interpret-as selectors
	bare := nodeReifier && !isPlain && shape.Intn(2) == 1
	if !bare {
		unixfsnode.AddUnixFSReificationToLinkSystem(&ls)
	}
	if nodeReifier {
		ls.NodeReifier = unixfsnode.Reify
		res.probe("linksystem-with-node-reifier")
	}
	var shared datamodel.Node
	{
		// opened exactly like the sequential reference, only over the
		// scheduler-aware link system
		cw := &world.World{Store: st, LS: ls}
		var err error
		if bare {
			res.probe("node-reifier-only-link-system")
			plain := world.New(st, false)
			var sub datamodel.Node
			sub, err = plain.LoadRoot(root)
			if err == nil {
				if isFile {
					shared, err = file.NewUnixFSFile(context.Background(), sub, &cw.LS)
				} else {
					shared, err = hamt.AttemptHAMTShardFromNode(context.Background(), sub, &cw.LS)
				}
			}
		} else if isFile {
			shared, _, err = openFile(cw, root, 1)
		} else {
			shared, err = cw.Reify(root)
		}
		if err != nil {
			res.Skipped, res.SkipReason = true, "cannot open shared node: "+err.Error()
			return res
		}
		if warm && !isFile {
			c17RunOp(shared, c17op{kind: "iterate"}, nil)
		}
	}
	got := make([][]string, nTasks)
	for t := 0; t < nTasks; t++ {
		t := t
		sch.Go(func() {
			for _, op := range taskOps[t] {
				sch.Yield() // operation boundary
				got[t] = append(got[t], c17RunOp(shared, op, sch.Yield))
			}
		})
	}
	mark := raceLogMark()
	panics := sch.Run()
	res.Events = sch.Steps
	if sch.BlockedEvents > 0 {
		res.probeN("task-blocked-inside-library", sch.BlockedEvents)
	}
	if sch.Deadlocked {
		// every remaining task waits inside the library for something that
		// will never happen (their goroutines are left behind; nothing they
		// wrote is read)
		var tb strings.Builder
		for i, id := range sch.Trace {
			if i >= 80 {
				break
			}
			fmt.Fprintf(&tb, "%d", id)
		}
		sc.Trace = tb.String()
		res.Violation = &Violation{Class: "c17/deadlock", Msg: fmt.Sprintf("%d goroutines using one %s node: every unfinished task is blocked inside the library (schedule %s)", nTasks, sc.Node, sc.Trace)}
		return res
	}

	// interleaving statistics from the trace
	interleaved := false
	for i := 2; i < len(sch.Trace); i++ {
		if sch.Trace[i] == sch.Trace[i-2] && sch.Trace[i] != sch.Trace[i-1] {
			interleaved = true
			break
		}
	}
	res.NonTrivial = interleaved
	if sameShardCold && !warm && !isFile && !isPlain {
		res.probe("two-tasks-parked-on-same-shard-cold")
	}
	kinds := map[string]int{}
	for _, tl := range taskOps {
		seen := map[string]bool{}
		for _, o := range tl {
			if !seen[o.kind] {
				seen[o.kind] = true
				kinds[o.kind]++
			}
		}
	}
	if kinds["length"] > 0 && kinds["lookup"] > 0 && interleaved {
		res.probe("length-concurrent-with-lookup")
	}
	if kinds["iterate"] > 0 && kinds["lookup"] > 0 && interleaved {
		res.probe("iteration-concurrent-with-lookup")
	}
	if kinds["reader"] >= 2 && interleaved {
		res.probe("readers-interleaved")
	}
	var tb strings.Builder
	for i, id := range sch.Trace {
		if i >= 80 {
			tb.WriteString("…")
			break
		}
		fmt.Fprintf(&tb, "%d", id)
	}
	sc.Trace = tb.String()
	var sig uint64
	for _, id := range sch.Trace {
		sig = fnvMix(sig, uint64(id))
	}
	for _, tl := range taskOps {
		for _, o := range tl {
			sig = fnvMix(sig, tape.HashString(o.kind))
		}
	}
	res.Sig = sig

	// (c) panics
	for t, p := range panics {
		if p != nil {
			res.Violation = &Violation{Class: "c17/panic-in-task", Msg: fmt.Sprintf("task %d panicked under schedule %s: %v", t, sc.Trace, p)}
			return res
		}
	}
	// (a) race reports
	sut, harness, foreign := raceReportsSince(mark)
	if len(harness) > 0 {
		// a harness defect must never be reported as a property violation
		fmt.Fprintf(os.Stderr, "HARNESS RACE (not a verdict):\n%s\n", harness[0])
		os.Exit(2)
	}
	if len(sut) > 0 {
		site := raceSite(sut[0])
		sc.Race = trimReport(sut[0])
		res.Violation = &Violation{Class: "c17/data-race@" + site, Msg: fmt.Sprintf("the race detector reports an unsynchronised access in %s while %d goroutines used one %s node (schedule %s)", site, nTasks, sc.Node, sc.Trace)}
		return res
	}
	if len(foreign) > 0 {
		fmt.Fprintf(os.Stderr, "RACE OUTSIDE LIBRARY AND HARNESS (not a verdict):\n%s\n", foreign[0])
		os.Exit(2)
	}
	// ---- expected results: each operation alone on a fresh node. Computed
	// AFTER the concurrent run: a sequential pass first would warm any lazily
	// initialised process-wide state and hide races on its first use.
	expected := make([][]string, nTasks)
	{
		var perr string
		panicked, site, pmsg := guard(func() {
			for t := range taskOps {
				for _, op := range taskOps[t] {
					w := newWorld(st, false, nodeReifier)
					var n datamodel.Node
					var err error
					if isFile {
						n, _, err = openFile(w, root, 1)
					} else {
						n, err = w.Reify(root)
					}
					if err != nil {
						perr = err.Error()
						return
					}
					expected[t] = append(expected[t], c17RunOp(n, op, nil))
				}
			}
		})
		if panicked {
			res.Violation = &Violation{Class: "c17/panic-sequential@" + site, Msg: "sequential reference run panicked: " + pmsg}
			return res
		}
		if perr != "" {
			res.Skipped, res.SkipReason = true, "cannot open node: "+perr
			return res
		}
	}

	// (b) result equality with the sequential run
	for t := range taskOps {
		if len(got[t]) != len(expected[t]) {
			res.Violation = &Violation{Class: "c17/task-incomplete", Msg: fmt.Sprintf("task %d finished %d of %d operations", t, len(got[t]), len(expected[t]))}
			return res
		}
		for i := range got[t] {
			if got[t][i] != expected[t][i] {
				res.Violation = &Violation{Class: "c17/result-differs@" + taskOps[t][i].kind, Msg: fmt.Sprintf("task %d op %d %s(%s): concurrent result %q differs from the result when run alone %q (schedule %s)", t, i, taskOps[t][i].kind, taskOps[t][i].arg, got[t][i], expected[t][i], sc.Trace)}
				return res
			}
		}
	}
	return res
}

// c17NoteLoad records which block each task is about to load, to measure
// whether two tasks were parked on the same shard at once. Harness state
// shared between tasks: norace, slices only.
//
//go:norace
func c17NoteLoad(s *sched.Sched, inflight []cid.Cid, c cid.Cid, same *bool) {
	id := s.Running()
	if id < 0 || id >= len(inflight) {
		return
	}
	if c.Defined() && same != nil {
		for i, o := range inflight {
			if i != id && o.Defined() && o.Equals(c) {
				*same = true
			}
		}
	}
	inflight[id] = c
}
