package checks

import (
	"bytes"
	"context"
	"errors"
	"fmt"
	"io"
	"io/fs"
	"strings"
	"syscall"

	"github.com/ipfs/go-cid"
	dagpb "github.com/ipld/go-codec-dagpb"
	"github.com/ipld/go-ipld-prime/datamodel"
	"github.com/ipld/go-ipld-prime/linking"
	cidlink "github.com/ipld/go-ipld-prime/linking/cid"
	"github.com/ipld/go-ipld-prime/node/basicnode"
	"github.com/ipld/go-ipld-prime/schema"
	"github.com/ipld/go-ipld-prime/traversal"

	"verif/sim/dagmodel"
	"verif/sim/gen"
	"verif/sim/store"
	"verif/sim/tape"
	"verif/sim/world"
)

// C12 — unavailable blocks surface as errors, never truncated / wrong / not-found.
type c12 struct{}

func init() { register(c12{}) }

func (c12) ID() string    { return "C12" }
func (c12) Level() string { return "fault_enumeration" }
func (c12) Technique() string {
	return "deterministic simulation with storage fault injection: per generated DAG, exhaustive single-block fault sweep (not-found, I/O error at open, I/O error mid-stream, corrupted bytes failing the hash check) plus k-th-load-fails-once for every k plus seeded 2-3 block subsets at the simulated block store; results compared with an independent reference model of what remains reachable"
}
func (c12) Rule() string {
	return "one evaluation = one execution of one operation (sequential read via AsBytes or a Read loop from offset 0 or after a Seek to an arbitrary offset; lookup by string/node/segment, fresh node and twice on one node; preloading reification; full MapIterator iteration) under one fault plan in the simulated store, followed by a recovery pass (store healthy again: the same node must answer correctly); per seeded DAG the plan space {every non-root block} x {not-found, I/O error at open, I/O error mid-stream, corrupted bytes failing the hash check} + the same blocks with well-known error values (io.ErrUnexpectedEOF, *fs.PathError{ErrNotExist}, wrapped DeadlineExceeded, traversal.SkipMe, bare io.EOF, context.Canceled) + {k-th load fails once} + {store goes away at load k} + 2-3 block subsets is enumerated; non-trivial = a fault actually fired during the operation; distinct = distinct (operation, fault kind, role/depth of the faulted block, outcome, seam event sequence) signature"
}
func (c12) Assumptions() []string {
	return []string{
		"the injected error is recognised by errors.As/Is or by its unique token in the error text (wrapping without %w is not a false alarm); a hash mismatch reported by go-ipld-prime for corrupted bytes counts as the load error",
		"for file nodes without BlockSizes (the reader must open children to learn their length) the prefix requirement is relaxed to 'a correct prefix no longer than the missing span's start', and a transient fault absorbed by a later successful load of the same block is accepted",
		"an empty (zero-length) block is needed by a full sequential read like any other block: the read visits every block of the file in link order",
		"entry points without an error result are judged only for what they can express: Length() must answer the true count or 0 (its one way to say 'could not count'), never a partial count; the typed Lookup is not judged",
		"a cancelled context is a fault like a store that has gone away: blocks already loaded stay deliverable, the first block that still has to be loaded fails with the context's error (the simulated store honours LinkContext.Ctx), and a reader that has delivered everything still ends with io.EOF",
		"the root block of the entity is available (otherwise nothing can be opened)",
	}
}
func (c12) RealStub() map[string]string {
	return realStub("faults are decided per request by the simulated store; each execution uses a freshly reified (cold cache) node")
}
func (c12) Runs(t Tier) int {
	if t == Thorough {
		return 6000
	}
	return 480
}
func (c12) RecordWidths() map[string]int { return nil }
func (c12) RequiredProbes() []string {
	return []string{"missing-interior-file-block", "missing-last-leaf", "missing-first-leaf", "missing-last-link-shard", "missing-nested-shard", "lookup-blocked", "lookup-not-blocked-under-fault", "kth-load-transient", "subset-fault", "hamt-depth>=3", "dedup-file-block-faulted", "missing-empty-block", "repeated-lookups-same-node", "file-reread-after-recovery", "iterate-again-after-recovery", "well-known-error-value", "file-without-blocksizes", "seek-then-read-under-fault", "store-goes-away-at-load-k", "seek-end-under-fault", "same-reader-used-after-error", "trusted-storage", "preload-under-fault", "linksystem-with-node-reifier"}
}

type c12Scenario struct {
	Kind   string `json:"kind"`
	Spec   string `json:"spec"`
	Blocks int    `json:"blocks"`
	Via    string `json:"via,omitempty"`
	Frag   int    `json:"frag"`
	SeekTo int64  `json:"seek_to,omitempty"`
	Plans  int    `json:"fault_plans"`
	Failed string `json:"failed_plan,omitempty"`
}

// faultPlan describes one fault configuration of the store.
type faultPlan struct {
	kind    store.FaultKind
	targets []cid.Cid // persistent: every request for these fails
	kth     int       // >=0: the kth read request fails once (transient)
	after   int
	flavour int  // 0: opaque injected error; 1..3: well-known error values, see flavourErr
	onward  bool // with kth >= 0: every request from the kth on fails (the store went away / the context was cancelled)
	// cancelCtx: the context the node was reified under is REALLY cancelled the
	// moment the plan first fires (and the store, honouring it, fails that and
	// every later request with context.Canceled); cancel is set by the
	// scenario before install
	cancelCtx bool
	cancel    func()
	// byBytes: no storage fault at all; the caller's context is cancelled
	// BETWEEN two Reads, once afterBytes bytes have been delivered. Loaded data
	// stays deliverable; the first block that still has to be loaded fails.
	byBytes    bool
	afterBytes int
}

// flavourErr returns the error value a real store might fail with. Code that
// special-cases such values (treats ErrUnexpectedEOF as "short file", skips
// ErrNotExist, retries deadline errors) must still report them.
func flavourErr(f int, c string) error {
	switch f {
	case 1:
		return io.ErrUnexpectedEOF
	case 2:
		return &fs.PathError{Op: "open", Path: "/blocks/" + c, Err: fs.ErrNotExist}
	case 3:
		return fmt.Errorf("read block %s: %w", c, context.DeadlineExceeded)
	case 6:
		return context.Canceled
	case 5:
		// a store that runs out of data while looking for the block (a
		// truncated CAR stream, a block file cut to zero length) and reports
		// that, as io packages do, with the bare io.EOF value
		return io.EOF
	case 7:
		// an error that WRAPS io.EOF (a store front-end annotating what its
		// back-end said): errors.Is(err, io.EOF) is true, err == io.EOF is not.
		// It is a load error like any other, not an end of file.
		return fmt.Errorf("read /blocks/%s: %w", c, io.EOF)
	case 8:
		// "already there": what a put-if-absent store, an O_EXCL create or a
		// hard-link into place reports; errors.Is(err, fs.ErrExist) is true.
		// For a reader it is an odd I/O error, for a writer a refused commit
		// like any other - the block was NOT written by this call
		return &fs.PathError{Op: "link", Path: "/blocks/" + c, Err: syscall.EEXIST}
	case 4:
		// what a visit-once / de-duplicating link loader returns for a block it
		// refuses to hand out again; the traversal engine gives this value a
		// meaning of its own for loads IT performs, which is why plans use it
		// only on blocks loaded by go-unixfsnode
		return traversal.SkipMe{}
	}
	return nil
}

func (p faultPlan) String() string {
	if p.byBytes {
		return fmt.Sprintf("context cancelled between two Reads once %d bytes were delivered", p.afterBytes)
	}
	if p.flavour > 0 {
		q := p
		q.flavour = 0
		return q.String() + " failing with " + []string{"", "io.ErrUnexpectedEOF", "*fs.PathError{fs.ErrNotExist}", "wrapped context.DeadlineExceeded", "traversal.SkipMe{}", "io.EOF", "context.Canceled", "an error wrapping io.EOF", "*fs.PathError{EEXIST}"}[p.flavour] + map[bool]string{true: " after really cancelling the context", false: ""}[p.cancelCtx]
	}
	if p.kth >= 0 && p.onward {
		return fmt.Sprintf("%s@every load from #%d on", p.kind, p.kth)
	}
	if p.kth >= 0 {
		return fmt.Sprintf("%s@load#%d(once)", p.kind, p.kth)
	}
	var ss []string
	for _, c := range p.targets {
		ss = append(ss, shortCid(c))
	}
	return fmt.Sprintf("%s on {%s}", p.kind, strings.Join(ss, ","))
}

func shortCid(c cid.Cid) string {
	s := c.String()
	if len(s) > 10 {
		return "…" + s[len(s)-8:]
	}
	return s
}

// install arms the store with the plan. It returns a function reporting the
// CIDs that were actually faulted.
func (p faultPlan) install(st *store.Store) func() []cid.Cid {
	var hit []cid.Cid
	tset := map[string]bool{}
	for _, c := range p.targets {
		tset[c.KeyString()] = true
	}
	st.ReadPolicy = func(nth int, c cid.Cid) *store.ReadFault {
		fire := false
		if p.byBytes {
			return nil
		}
		if p.kth >= 0 && p.onward {
			fire = nth >= p.kth
		} else if p.kth >= 0 {
			fire = nth == p.kth
		} else {
			fire = tset[c.KeyString()]
		}
		if !fire {
			return nil
		}
		hit = append(hit, c)
		if p.cancel != nil {
			p.cancel()
		}
		switch p.kind {
		case store.Corrupt:
			data, _ := st.Get(c)
			bad := append([]byte(nil), data...)
			if len(bad) == 0 {
				bad = []byte{0x00}
			} else {
				bad[(p.after)%len(bad)] ^= 0x01
			}
			return &store.ReadFault{Kind: store.Corrupt, Replace: bad}
		case store.EIOMid:
			data, _ := st.Get(c)
			after := 0
			if len(data) > 0 {
				after = p.after % len(data)
			}
			return &store.ReadFault{Kind: store.EIOMid, After: after, Err: flavourErr(p.flavour, shortCid(c))}
		}
		return &store.ReadFault{Kind: p.kind, Err: flavourErr(p.flavour, shortCid(c))}
	}
	return func() []cid.Cid { return hit }
}

var faultKinds = []store.FaultKind{store.NotFound, store.EIOOpen, store.EIOMid, store.Corrupt}

// isLoadError reports whether err is (or wraps, or textually carries) an
// error injected by the store, or ipld-prime's hash mismatch for corrupted
// bytes.
func isLoadError(err error) bool {
	if err == nil {
		return false
	}
	var ie *store.InjectedError
	if errors.As(err, &ie) {
		return true
	}
	var hm linking.ErrHashMismatch
	if errors.As(err, &hm) {
		return true
	}
	if errors.Is(err, io.ErrUnexpectedEOF) || errors.Is(err, fs.ErrNotExist) || errors.Is(err, context.DeadlineExceeded) || errors.Is(err, context.Canceled) {
		return true // the flavoured injections
	}
	var skip traversal.SkipMe
	if errors.As(err, &skip) {
		return true
	}
	msg := err.Error()
	return strings.Contains(msg, "simstore injected") || strings.Contains(msg, "hash mismatch") || strings.Contains(msg, "/blocks/") || strings.Contains(msg, "deadline exceeded") || strings.Contains(msg, "unexpected EOF") || strings.Contains(msg, "context canceled") || strings.HasSuffix(msg, ": skip") || msg == "skip"
}

func isNotFoundResult(err error) bool {
	if err == nil {
		return false
	}
	var nsf schema.ErrNoSuchField
	if errors.As(err, &nsf) {
		return true
	}
	var ne datamodel.ErrNotExists
	return errors.As(err, &ne)
}

func (c c12) Run(ts *tape.Set, tier Tier) *Result {
	shape := ts.T("shape")
	if shape.Pick(1, 1) == 0 {
		return c.runFile(ts, tier)
	}
	return c.runDir(ts, tier)
}

// readSeq drives a sequential read to the end or the first error.
func readSeq(rs io.Reader, bufs func() int, maxCalls int) (out []byte, err error, calls int) {
	return readSeqHook(rs, bufs, maxCalls, nil)
}

// readSeqHook is readSeq with a callback before every Read (told how many
// bytes were delivered so far).
func readSeqHook(rs io.Reader, bufs func() int, maxCalls int, before func(delivered int)) (out []byte, err error, calls int) {
	zero := 0
	for calls < maxCalls {
		if before != nil {
			before(len(out))
		}
		k := bufs()
		buf := make([]byte, k)
		n, e := rs.Read(buf)
		calls++
		if n < 0 || n > k {
			return out, fmt.Errorf("harness: Read returned n=%d for a %d byte buffer", n, k), calls
		}
		out = append(out, buf[:n]...)
		if e != nil {
			return out, e, calls
		}
		if n == 0 {
			zero++
			if zero > 3 {
				return out, errNoProgress, calls
			}
		} else {
			zero = 0
		}
	}
	return out, errTooManyCalls, calls
}

var errNoProgress = errors.New("harness: no progress in 4 consecutive reads")
var errTooManyCalls = errors.New("harness: read call budget exhausted")

func (c12) runFile(ts *tape.Set, tier Tier) *Result {
	res := &Result{}
	shape := ts.T("shape")
	maxSize := 4 << 10
	if tier == Thorough {
		maxSize = 12 << 10
	}
	spec := gen.DrawFileSpec(shape, gen.FileOpts{MaxSize: maxSize, AllowOdd: true, AllowNoSizes: true, MultiBlock: true})
	// interior nodes without BlockSizes: the reader has to open children to
	// learn their length, so a failure may surface earlier than the missing
	// block's span, and a transient failure met while measuring may be absorbed
	// by the later, successful load. What stays required: a persistent fault
	// ends in the load error (never EOF), and the bytes before it are a correct
	// prefix no longer than the span start.
	noSizes := spec.Writer == "odd-noblocksizes" || spec.Writer == "odd-partial-meta"
	if noSizes {
		res.probe("file-without-blocksizes")
	}
	via := shape.Intn(2)
	fragMode := shape.Pick(2, 1, 1, 1)
	fragSeed := shape.Raw()
	useAsBytes := shape.Intn(2) == 0
	bufSeed := shape.Raw()
	subsetSeed := shape.Raw()
	nodeReifier := shape.Intn(3) == 2
	if nodeReifier {
		res.probe("linksystem-with-node-reifier")
	}
	trusted := subsetSeed%5 == 4 // LinkSystem.TrustedStorage: no hash check, so no "corrupt" plans in this run
	if trusted {
		res.probe("trusted-storage")
	}

	st := store.New()
	root, _, err := gen.WriteFile(st, spec)
	if err != nil {
		res.Skipped, res.SkipReason = true, err.Error()
		return res
	}
	model, err := dagmodel.BuildFile(st, root)
	if err != nil {
		res.Skipped, res.SkipReason = true, "model: "+err.Error()
		return res
	}
	if len(model.Spans) > 400 {
		res.Skipped, res.SkipReason = true, "DAG larger than the sweep bound"
		return res
	}
	fullContent := model.Content
	// seek mode: the reader is first positioned at a (inside the file) and
	// then read to the end; blocks that lie wholly before a are not needed
	a := int64(0)
	if !useAsBytes && len(fullContent) > 2 && subsetSeed%2 == 0 {
		a = 1 + int64((subsetSeed>>8)%uint64(len(fullContent)-1))
		res.probe("seek-then-read-under-fault")
	}
	content := fullContent[a:]
	sc := &c12Scenario{Kind: "file", Spec: spec.String(), Blocks: len(model.Spans), Frag: fragMode, SeekTo: a}
	res.Scenario = sc
	if len(model.Spans) < 2 {
		// single block: nothing to make unavailable but the root
		res.Skipped, res.SkipReason = true, "single-block file"
		return res
	}

	// distinct non-root blocks, DFS order
	var blocks []cid.Cid
	firstStart := map[string]int64{}
	firstStartL := map[string]int64{} // the same without optional occurrences, see below
	occ := map[string]int{}
	rootKey := root.KeyString()
	// occurrences a read from offset a needs, with their start relative to a
	needed := func(s dagmodel.Span) (int64, bool) {
		if s.Start == s.End {
			return s.Start - a, s.Start >= a
		}
		if s.End <= a {
			return 0, false
		}
		if s.Start < a {
			return 0, true
		}
		return s.Start - a, true
	}
	seenBlock := map[string]bool{}
	for _, s := range model.Spans {
		k := s.Cid.KeyString()
		occ[k]++
		if !seenBlock[k] {
			seenBlock[k] = true
			if k != rootKey {
				blocks = append(blocks, s.Cid)
			}
		}
		if rel, ok := needed(s); ok {
			if _, have := firstStart[k]; !have {
				firstStart[k] = rel
			}
			// an EMPTY block lying exactly at the position the reader was
			// seeked to contributes no byte at or after it; whether a reader
			// visits it depends on where it hangs (an empty child of the node
			// being read: yes; the empty tail of a sibling subtree that ends
			// there: no). Both are right, so such an occurrence is optional.
			if !(s.Start == s.End && a > 0 && s.Start == a) {
				if _, have := firstStartL[k]; !have {
					firstStartL[k] = rel
				}
			}
		}
	}
	starts := map[string]map[int64]bool{}
	for _, s := range model.Spans {
		k := s.Cid.KeyString()
		if rel, ok := needed(s); ok {
			if starts[k] == nil {
				starts[k] = map[int64]bool{}
			}
			starts[k][rel] = true
		}
	}
	lastLeaf, firstLeaf := cid.Undef, cid.Undef
	for _, s := range model.Spans {
		if s.Leaf {
			if !firstLeaf.Defined() {
				firstLeaf = s.Cid
			}
			lastLeaf = s.Cid
		}
	}
	zeroLen := map[string]bool{}
	for _, s := range model.Spans {
		if s.Start == s.End {
			zeroLen[s.Cid.KeyString()] = true
		}
	}
	interior := map[string]bool{}
	for i, s := range model.Spans {
		if i > 0 && !s.Leaf {
			interior[s.Cid.KeyString()] = true
		}
	}

	// fault-free run gives the number of loads
	var lastNode datamodel.Node
	recoveryFailure := ""
	lengthFailure := ""
	retryFailure := ""
	probeEnd := !useAsBytes && bufSeed%2 == 0
	if probeEnd {
		res.probe("seek-end-under-fault")
	}
	exec := func(p *faultPlan) (data []byte, rerr error, hit []cid.Cid, panicked bool, site, pmsg string, log []store.Event) {
		lastNode = nil
		lengthFailure = ""
		retryFailure = ""
		st.ResetLog()
		st.ReadPolicy = nil
		st.Frag = fragFn(fragSeed, fragMode)
		var hits func() []cid.Cid
		w := newWorld(st, trusted, nodeReifier)
		if p != nil {
			if p.cancelCtx {
				ctx, cancel := context.WithCancel(context.Background())
				defer cancel()
				w.Ctx, p.cancel = ctx, cancel
			}
			hits = p.install(st)
		}
		br := tape.NewSplitMix(bufSeed)
		panicked, site, pmsg = guard(func() {
			n, how, err := openFile(w, root, via)
			sc.Via = how
			if err != nil {
				rerr = fmt.Errorf("open: %w", err)
				return
			}
			lastNode = n
			if useAsBytes {
				data, rerr = n.AsBytes()
				if rerr == nil {
					rerr = io.EOF // AsBytes reports a complete read as nil
				}
				return
			}
			rs, err := n.(datamodel.LargeBytesNode).AsLargeBytes()
			if err != nil {
				rerr = fmt.Errorf("AsLargeBytes: %w", err)
				return
			}
			// an end-relative seek first: under a fault it may fail, but it must
			// never report a wrong length
			if probeEnd {
				end, e := rs.Seek(0, io.SeekEnd)
				if e == nil && end != int64(len(fullContent)) {
					lengthFailure = fmt.Sprintf("Seek(0, SeekEnd) returned %d with a nil error; the file has %d bytes", end, len(fullContent))
				}
				if _, e := rs.Seek(0, io.SeekStart); e != nil {
					rerr = fmt.Errorf("seek back to start: %w", e)
					return
				}
			}
			if a > 0 {
				if _, err := rs.Seek(a, io.SeekStart); err != nil {
					rerr = fmt.Errorf("seek: %w", err)
					return
				}
			}
			var hook func(int)
			if p != nil && p.byBytes {
				hook = func(delivered int) {
					if delivered >= p.afterBytes && p.cancel != nil {
						p.cancel()
					}
				}
			}
			data, rerr, _ = readSeqHook(rs, func() int { return 1 + int(br.Next()%300) }, 4*len(content)+64, hook)
			if p != nil && rerr != nil && rerr != io.EOF && rerr != errNoProgress && rerr != errTooManyCalls && len(data) <= len(content) && bytes.Equal(data, content[:len(data)]) {
				// ---- the caller keeps using the SAME reader after the error.
				// While the block is still missing a further Read must fail again
				// (never end-of-file, never other bytes); once the store has
				// recovered, reading on must deliver exactly the rest of the
				// file, or fail - never wrong bytes, never an early end.
				pos := len(data)
				persistent := p.kth < 0 || p.onward
				buf := make([]byte, 1+int(br.Next()%200))
				n, e := rs.Read(buf)
				switch {
				case n < 0 || pos+n > len(content) || !bytes.Equal(buf[:n], content[pos:pos+n]):
					retryFailure = fmt.Sprintf("a second Read on the same reader after the load error returned %d bytes that are not the content at offset %d", n, pos)
				case e == io.EOF && pos+n < len(content):
					retryFailure = fmt.Sprintf("a second Read on the same reader after the load error returned end-of-file at offset %d of %d", pos+n, len(content))
				case persistent && e == nil && n > 0:
					// cannot happen while the block holding this offset is missing
					retryFailure = fmt.Sprintf("a second Read on the same reader returned %d bytes although the block at offset %d is still unavailable", n, pos)
				}
				pos += n
				if retryFailure == "" && br.Next()%2 == 0 {
					// ... and asks the same reader where the file ends: the true
					// length or an error, never a length made of what could be
					// measured before the failure
					end, se := rs.Seek(0, io.SeekEnd)
					if se == nil && end != int64(len(fullContent)) {
						retryFailure = fmt.Sprintf("after the load error Seek(0, SeekEnd) on the same reader returned (%d, nil); the file has %d bytes", end, len(fullContent))
					}
					if _, se := rs.Seek(a+int64(pos), io.SeekStart); se != nil && retryFailure == "" {
						retryFailure = fmt.Sprintf("after the load error Seek(%d, SeekStart) on the same reader failed: %v", a+int64(pos), se)
					}
					res.probe("seek-end-on-same-reader-after-error")
				}
				if retryFailure == "" {
					st.ReadPolicy = nil
					rest, e2, _ := readSeq(rs, func() int { return 1 + int(br.Next()%300) }, 4*len(content)+64)
					switch {
					case pos+len(rest) > len(content) || !bytes.Equal(rest, content[pos:pos+len(rest)]):
						retryFailure = fmt.Sprintf("after the store recovered, reading on with the same reader returned %d bytes that are not the content from offset %d", len(rest), pos)
					case e2 == io.EOF && pos+len(rest) != len(content):
						retryFailure = fmt.Sprintf("after the store recovered, reading on with the same reader ended at offset %d of %d", pos+len(rest), len(content))
					}
				}
				res.probe("same-reader-used-after-error")
			}
		})
		if hits != nil {
			hit = hits()
		}
		// the store recovers: a new reader from the SAME node must deliver the
		// whole content (nothing about the failure may be remembered)
		if p != nil && !panicked && lastNode != nil && len(hit) > 0 && !p.cancelCtx {
			st.ReadPolicy = nil
			var again []byte
			var aerr error
			p2, s2, m2 := guard(func() { again, aerr = lastNode.AsBytes() })
			if p2 {
				panicked, site, pmsg = p2, s2, "after recovery: "+m2
			} else if aerr != nil || !bytes.Equal(again, fullContent) {
				recoveryFailure = fmt.Sprintf("after the store recovered, a new read from the same node returned %d/%d bytes, err=%v", len(again), len(fullContent), aerr)
			} else if lb, ok := lastNode.(datamodel.LargeBytesNode); ok {
				// ... and a new reader's end-relative seek must see the true length
				var end int64
				var eerr error
				p3, s3, m3 := guard(func() {
					rs2, err := lb.AsLargeBytes()
					if err != nil {
						eerr = err
						return
					}
					end, eerr = rs2.Seek(-1, io.SeekEnd)
				})
				if p3 {
					panicked, site, pmsg = p3, s3, "after recovery: "+m3
				} else if len(fullContent) > 0 && (eerr != nil || end != int64(len(fullContent))-1) {
					recoveryFailure = fmt.Sprintf("after the store recovered, Seek(-1, SeekEnd) on a new reader of the same node returned (%d, %v); the file has %d bytes", end, eerr, len(fullContent))
				}
			}
			res.probe("file-reread-after-recovery")
		}
		res.Execs++
		res.Events += len(st.Log)
		res.fired(st.Fired)
		st.Fired = map[string]int{}
		return data, rerr, hit, panicked, site, pmsg, st.Log
	}

	data, rerr, _, panicked, site, pmsg, log0 := exec(nil)
	if panicked {
		res.Violation = &Violation{Class: "c12/file/panic@" + site, Msg: "fault-free read panicked: " + pmsg}
		return res
	}
	if rerr != io.EOF || !bytes.Equal(data, content) {
		// not this property's subject (C01/C04); without a sane baseline the
		// sweep cannot be judged
		res.Skipped, res.SkipReason = true, fmt.Sprintf("fault-free read does not return the content (err=%v, %d/%d bytes)", rerr, len(data), len(content))
		return res
	}
	nLoads := 0
	for _, e := range log0 {
		if e.Kind == "ReadOpen" {
			nLoads++
		}
	}

	var plans []faultPlan
	for _, b := range blocks {
		for i, k := range faultKinds {
			plans = append(plans, faultPlan{kind: k, targets: []cid.Cid{b}, kth: -1, after: int(subsetSeed>>uint(i)) & 0xffff})
		}
	}
	for i, b := range blocks {
		kind := []store.FaultKind{store.EIOOpen, store.EIOMid, store.NotFound}[i%3]
		plans = append(plans, faultPlan{kind: kind, targets: []cid.Cid{b}, kth: -1, after: i * 13, flavour: 1 + i%4})
		if i%2 == 0 {
			plans = append(plans, faultPlan{kind: store.EIOOpen, targets: []cid.Cid{b}, kth: -1, flavour: 5})
		}
		if i%3 == 1 || len(blocks) <= 3 {
			plans = append(plans, faultPlan{kind: []store.FaultKind{store.EIOOpen, store.EIOMid}[(i/3)%2], targets: []cid.Cid{b}, kth: -1, after: i * 5, flavour: 7})
		}
	}
	for k := 1; k < nLoads; k += kthStride(nLoads) { // load 0 is the root
		kind := faultKinds[k%len(faultKinds)]
		plans = append(plans, faultPlan{kind: kind, kth: k, after: k * 7})
	}
	if nLoads > 1 {
		plans = append(plans, faultPlan{kind: faultKinds[nLoads%4], kth: nLoads - 1, after: 5})
	}
	// the store goes away (or the caller's context is cancelled) at load k:
	// that request and every later one fail
	for _, k := range []int{1, nLoads / 3, nLoads / 2, nLoads - 1} {
		if k >= 1 && k < nLoads {
			plans = append(plans, faultPlan{kind: store.EIOOpen, kth: k, onward: true, flavour: []int{0, 6}[k%2]})
		}
	}
	// the same with the caller's context really cancelled at that moment (the
	// node carries the context it was reified under)
	for _, k := range []int{1, nLoads / 2} {
		if k >= 1 && k < nLoads {
			plans = append(plans, faultPlan{kind: store.EIOOpen, kth: k, onward: true, flavour: 6, cancelCtx: true})
		}
	}
	// no storage fault: the context is cancelled between two Reads, in the
	// middle of the data (wherever that falls inside a loaded leaf), just before
	// the last byte, and after the last byte
	if !useAsBytes && len(content) > 0 {
		for _, nb := range []int{1, len(content) / 3, len(content) / 2, len(content) - 1, len(content)} {
			plans = append(plans, faultPlan{kind: store.EIOOpen, kth: 0, onward: true, cancelCtx: true, byBytes: true, afterBytes: nb})
		}
	}
	sr := tape.NewSplitMix(subsetSeed)
	for i := 0; i < 6 && len(blocks) >= 2; i++ {
		n := 2 + int(sr.Next()%2)
		var tg []cid.Cid
		for j := 0; j < n; j++ {
			tg = append(tg, blocks[int(sr.Next()%uint64(len(blocks)))])
		}
		plans = append(plans, faultPlan{kind: faultKinds[int(sr.Next()%4)], targets: tg, kth: -1, after: int(sr.Next() & 0xffff)})
	}
	if trusted {
		kept := plans[:0]
		for _, p := range plans {
			if p.kind != store.Corrupt {
				kept = append(kept, p)
			}
		}
		plans = kept
	}
	sc.Plans = len(plans)

	var sig uint64
	for _, p := range plans {
		p := p
		data, rerr, hit, panicked, site, pmsg, log := exec(&p)
		fail := func(class, format string, args ...any) {
			if res.Violation == nil {
				sc.Failed = p.String()
				res.Violation = &Violation{Class: class, Msg: fmt.Sprintf("plan %s: ", p.String()) + fmt.Sprintf(format, args...)}
				res.Excerpt = excerpt(log, 12)
			}
		}
		if panicked {
			fail("c12/file/panic@"+site, "panic: %s", pmsg)
			break
		}
		if recoveryFailure != "" {
			fail("c12/file/failure-remembered-after-recovery", "%s", recoveryFailure)
			break
		}
		if lengthFailure != "" {
			fail("c12/file/wrong-length-under-fault", "%s", lengthFailure)
			break
		}
		if retryFailure != "" {
			fail("c12/file/same-reader-after-error", "%s", retryFailure)
			break
		}
		if p.byBytes {
			res.probe("context-cancelled-between-reads")
			for _, e := range log {
				if e.Kind == "ReadOpen" && e.Outcome == "ctx-done" {
					if c, cerr := cid.Decode(e.Cid); cerr == nil {
						hit = []cid.Cid{c}
						break
					}
				}
			}
			if len(hit) == 0 {
				// nothing had to be loaded after the cancellation: everything the
				// reader holds stays deliverable and the end is the end
				if rerr != io.EOF || !bytes.Equal(data, content) {
					fail("c12/file/cancellation-withholds-loaded-data", "no block had to be loaded after the cancellation, yet the read returned %d/%d bytes, err=%v", len(data), len(content), rerr)
					break
				}
				continue
			}
		}
		if len(hit) == 0 {
			// the fault never fired (e.g. the subset's blocks were behind an
			// earlier failure): the read must be complete
			if rerr != io.EOF || !bytes.Equal(data, content) {
				fail("c12/file/changed-without-fault", "no fault fired but the read returned %d/%d bytes, err=%v", len(data), len(content), rerr)
				break
			}
			continue
		}
		res.NonTrivial = true
		if p.flavour > 0 {
			res.probe("well-known-error-value")
		}
		// expected prefix
		var okLens map[int64]bool
		if p.kth >= 0 {
			if p.onward {
				res.probe("store-goes-away-at-load-k")
			} else {
				res.probe("kth-load-transient")
			}
			okLens = starts[hit[0].KeyString()]
			if okLens == nil {
				// the library requested a block the read from offset a does not
				// need (C05's subject, not this property's): cannot be judged here
				continue
			}
		} else {
			anyNeeded := false
			for _, t := range p.targets {
				if _, ok := firstStart[t.KeyString()]; ok {
					anyNeeded = true
				}
			}
			if !anyNeeded {
				continue
			}
			if len(p.targets) > 1 {
				res.probe("subset-fault")
			}
			// a full sequential read walks every block of the file in link
			// order, empty ones included (C06/C20), so the first unavailable
			// block in that order - whatever its length - ends the read
			min := int64(-1)
			for _, t := range p.targets {
				if s, ok := firstStart[t.KeyString()]; ok && (min < 0 || s < min) {
					min = s
				}
			}
			okLens = map[int64]bool{min: true}
			minL := int64(-1)
			for _, t := range p.targets {
				if s, ok := firstStartL[t.KeyString()]; ok && (minL < 0 || s < minL) {
					minL = s
				}
			}
			if minL >= 0 {
				okLens[minL] = true
			} else if rerr == io.EOF && bytes.Equal(data, content) {
				// the only needed occurrence of a faulted block was an optional
				// one and the reader did not visit it
				res.probe("optional-empty-block-at-seek-position-skipped")
				continue
			}
			for _, t := range p.targets {
				if zeroLen[t.KeyString()] {
					res.probe("missing-empty-block")
				}
			}
			for _, t := range p.targets {
				k := t.KeyString()
				if interior[k] {
					res.probe("missing-interior-file-block")
				}
				if t.Equals(lastLeaf) {
					res.probe("missing-last-leaf")
				}
				if t.Equals(firstLeaf) {
					res.probe("missing-first-leaf")
				}
				if occ[k] > 1 {
					res.probe("dedup-file-block-faulted")
				}
			}
		}
		sig = fnvMix(sig, uint64(p.kind), boolU(p.kth >= 0), uint64(len(p.targets)), boolU(rerr == io.EOF), boolU(isLoadError(rerr)))
		sig = sigOfLog(sig, log)
		if noSizes && p.kth >= 0 && !p.onward && rerr == io.EOF && bytes.Equal(data, content) {
			res.probe("transient-fault-absorbed-while-measuring")
			continue
		}
		if noSizes {
			// any correct prefix up to the span start is acceptable
			max := int64(-1)
			for l := range okLens {
				if l > max {
					max = l
				}
			}
			if p.kth >= 0 && !p.onward {
				max = int64(len(content))
			}
			okLens = map[int64]bool{int64(len(data)): int64(len(data)) <= max}
		}
		switch {
		case rerr == io.EOF || rerr == nil:
			if bytes.Equal(data, content) {
				fail("c12/file/fault-ignored", "block unavailable but the read returned the whole content: the store was not consulted for it")
			} else {
				fail("c12/file/eof-instead-of-error", "read ended with end-of-file after %d of %d bytes instead of reporting the load error", len(data), len(content))
			}
		case rerr == errNoProgress || rerr == errTooManyCalls:
			fail("c12/file/no-termination", "%v after %d bytes", rerr, len(data))
		case !isLoadError(rerr):
			fail("c12/file/foreign-error", "read failed with %q which is not the load error", rerr.Error())
		case int64(len(data)) > int64(len(content)) || !bytes.Equal(data, content[:len(data)]):
			fail("c12/file/wrong-bytes", "the %d bytes returned before the error are not a prefix of the content", len(data))
		case !okLens[int64(len(data))]:
			fail("c12/file/wrong-prefix-length", "returned %d correct bytes before the error; the unavailable block's span starts at %v", len(data), keysOf(okLens))
		}
		if res.Violation != nil {
			break
		}
	}
	res.Sig = sig
	return res
}

// kthStride spaces the "k-th load fails" plans so that one run stays within
// about three million block loads: every k for DAGs up to ~1700 loads.
func kthStride(nLoads int) int {
	if nLoads <= 0 {
		return 1
	}
	maxPlans := 3000000 / nLoads
	if maxPlans < 20 {
		maxPlans = 20
	}
	s := (nLoads + maxPlans - 1) / maxPlans
	if s < 1 {
		s = 1
	}
	return s
}

func keysOf(m map[int64]bool) []int64 {
	var out []int64
	for k := range m {
		out = append(out, k)
	}
	return out
}

func (c12) runDir(ts *tape.Set, tier Tier) *Result {
	res := &Result{}
	shape := ts.T("shape")
	maxN := 150
	if tier == Thorough {
		maxN = 600
	}
	spec := gen.DrawDirSpec(shape, gen.DirOpts{MaxN: maxN})
	probeSeed := shape.Raw()
	entryPoint := shape.Intn(4)

	st := store.New()
	root, entries, err := gen.WriteShardedDir(st, spec)
	if err != nil {
		res.Skipped, res.SkipReason = true, err.Error()
		return res
	}
	model, err := dagmodel.BuildDir(st, root)
	if err != nil {
		res.Skipped, res.SkipReason = true, "model: "+err.Error()
		return res
	}
	sc := &c12Scenario{Kind: "dir", Spec: spec.String(), Blocks: len(model.Shards)}
	res.Scenario = sc
	if len(model.Entries) != len(entries) {
		res.Skipped, res.SkipReason = true, "stored directory does not hold the entries given to the writer (C02/C08's subject)"
		return res
	}
	if len(model.Shards) < 2 {
		res.Skipped, res.SkipReason = true, "single-shard directory"
		return res
	}
	if model.MaxDepth >= 2 {
		res.probe("hamt-depth>=3")
	}
	shards := model.ShardDFS()[1:]
	if len(shards) > 120 {
		shards = shards[:120]
	}
	// which shards are the last link of their parent / nested
	lastLink := map[string]bool{}
	nested := map[string]bool{}
	for _, s := range model.Shards {
		if n := len(s.Links); n > 0 && s.Links[n-1].IsShard {
			lastLink[s.Links[n-1].Cid.KeyString()] = true
		}
		if s.Depth >= 2 {
			nested[s.Cid.KeyString()] = true
		}
	}

	// names to look up: members under / not under the faulted shard are picked per plan
	pr := tape.NewSplitMix(probeSeed)
	nonMembers := []string{"", "zz-not-there", "f", "00", "m0x", "a/b", "/"}
	for i := 0; i < 6; i++ {
		nonMembers = append(nonMembers, fmt.Sprintf("nm%d", pr.Next()%100000))
	}

	lookup := func(n datamodel.Node, name string) (datamodel.Node, error) {
		switch entryPoint {
		case 0:
			return n.LookupByString(name)
		case 1:
			return n.LookupByNode(basicnode.NewString(name))
		case 3:
			// the key as a directory iterator hands it out: a dag-pb string node
			nb := dagpb.Type.String.NewBuilder()
			if err := nb.AssignString(name); err != nil {
				return nil, err
			}
			return n.LookupByNode(nb.Build())
		default:
			return n.LookupBySegment(segmentFor(name))
		}
	}
	if entryPoint == 3 {
		res.probe("lookup-by-dagpb-string-node")
	}

	type plan struct {
		fp faultPlan
	}
	var plans []faultPlan
	for _, b := range shards {
		for i, k := range faultKinds {
			plans = append(plans, faultPlan{kind: k, targets: []cid.Cid{b}, kth: -1, after: int(probeSeed>>uint(i)) & 0xffff})
		}
	}
	for i, b := range shards {
		kind := []store.FaultKind{store.EIOOpen, store.EIOMid, store.NotFound}[i%3]
		plans = append(plans, faultPlan{kind: kind, targets: []cid.Cid{b}, kth: -1, after: i * 13, flavour: 1 + i%3})
	}
	for i := 0; i < 6 && len(shards) >= 2; i++ {
		n := 2 + int(pr.Next()%2)
		var tg []cid.Cid
		for j := 0; j < n; j++ {
			tg = append(tg, shards[int(pr.Next()%uint64(len(shards)))])
		}
		plans = append(plans, faultPlan{kind: faultKinds[int(pr.Next()%4)], targets: tg, kth: -1, after: int(pr.Next() & 0xffff)})
	}
	// the store goes away at the k-th shard load: for a directory (each shard
	// is loaded once) that is a persistent fault on the tail of the walk order
	all := model.ShardDFS()
	for _, k := range []int{1, len(all) / 2, len(all) - 1} {
		if k >= 1 && k < len(all) && len(all)-k <= 200 {
			plans = append(plans, faultPlan{kind: store.EIOOpen, targets: append([]cid.Cid(nil), all[k:]...), kth: -1, flavour: []int{0, 6}[k%2]})
			if k != len(all)/2 || k == 1 {
				// ... and with the context the directory was reified under really
				// cancelled at that moment (iteration only: a cancelled context
				// does not come back, and it fails every path of a lookup)
				plans = append(plans, faultPlan{kind: store.EIOOpen, targets: append([]cid.Cid(nil), all[k:]...), kth: -1, flavour: 6, cancelCtx: true})
			}
		}
	}
	// transient: k-th load of a full iteration fails once
	nShardLoads := len(model.Shards) // root + children
	for k := 1; k < nShardLoads && k <= 40; k++ {
		plans = append(plans, faultPlan{kind: faultKinds[k%4], kth: k, after: 3 * k})
	}
	sc.Plans = len(plans)
	_ = plan{}

	var sig uint64
	for _, p := range plans {
		p := p
		unav := map[string]bool{}
		for _, t := range p.targets {
			unav[t.KeyString()] = true
		}
		unavail := func(c cid.Cid) bool { return unav[c.KeyString()] }
		fail := func(class, format string, args ...any) {
			if res.Violation == nil {
				sc.Failed = p.String()
				res.Violation = &Violation{Class: class, Msg: fmt.Sprintf("plan %s: ", p.String()) + fmt.Sprintf(format, args...)}
				res.Excerpt = excerpt(st.Log, 12)
			}
		}
		fresh := func() (datamodel.Node, func() []cid.Cid, error) {
			st.ResetLog()
			st.ReadPolicy = nil
			w := world.New(st, false)
			if p.cancelCtx {
				ctx, cancel := context.WithCancel(context.Background())
				w.Ctx, p.cancel = ctx, cancel
				res.probe("context-cancelled-mid-iteration")
			}
			// the root load must not consume the transient fault index
			n, err := w.Reify(root)
			hits := p.install(st)
			return n, hits, err
		}

		if p.kth < 0 && !p.cancelCtx {
			for _, t := range p.targets {
				if lastLink[t.KeyString()] {
					res.probe("missing-last-link-shard")
				}
				if nested[t.KeyString()] {
					res.probe("missing-nested-shard")
				}
			}
			if len(p.targets) > 1 {
				res.probe("subset-fault")
			}
			// ---- lookups (persistent faults only: a transient fault's position
			// depends on what else was loaded)
			var names []string
			// members under a faulted shard and elsewhere
			under, other := 0, 0
			for _, e := range model.Order {
				blocked := false
				for _, u := range e.Under {
					if unav[u.KeyString()] {
						blocked = true
					}
				}
				if blocked && under < 3 {
					names = append(names, e.Name)
					under++
				}
				if !blocked && other < 3 {
					names = append(names, e.Name)
					other++
				}
			}
			names = append(names, nonMembers...)
			for _, name := range names {
				n, hits, err := fresh()
				if err != nil {
					fail("c12/lookup/open-failed", "reify root: %v", err)
					break
				}
				want := model.LookupWith(name, unavail)
				var got datamodel.Node
				var lerr error
				panicked, site, pmsg := guard(func() { got, lerr = lookup(n, name) })
				res.Execs++
				res.Events += len(st.Log)
				res.fired(st.Fired)
				st.Fired = map[string]int{}
				if panicked {
					fail("c12/lookup/panic@"+site, "lookup %q panicked: %s", name, pmsg)
					break
				}
				fired := len(hits()) > 0
				if fired {
					res.NonTrivial = true
				}
				sig = fnvMix(sig, 7, uint64(p.kind), boolU(want.Blocked), boolU(want.Found), boolU(lerr == nil), uint64(len(want.Shards)))
				sig = sigOfLog(sig, st.Log)
				switch {
				case want.Blocked:
					res.probe("lookup-blocked")
					if lerr == nil {
						fail("c12/lookup/result-despite-missing-shard", "lookup %q crosses unavailable shard %s but returned a value", name, shortCid(want.BlockedAt))
					} else if isNotFoundResult(lerr) {
						fail("c12/lookup/notfound-instead-of-error", "lookup %q crosses unavailable shard %s but reported not-found (%v)", name, shortCid(want.BlockedAt), lerr)
					} else if !isLoadError(lerr) {
						fail("c12/lookup/foreign-error", "lookup %q crosses unavailable shard %s but failed with %q, not the load error", name, shortCid(want.BlockedAt), lerr.Error())
					}
				case want.Found:
					res.probe("lookup-not-blocked-under-fault")
					if lerr != nil {
						fail("c12/lookup/error-off-path", "lookup %q does not cross an unavailable shard but failed: %v", name, lerr)
					} else if l, err := got.AsLink(); err != nil || !l.(cidlink.Link).Cid.Equals(want.Link) {
						fail("c12/lookup/wrong-link", "lookup %q returned %v, want %s", name, l, want.Link)
					}
				default:
					res.probe("lookup-not-blocked-under-fault")
					if lerr == nil {
						fail("c12/lookup/found-nonmember", "lookup of non-member %q returned a value", name)
					} else if !isNotFoundResult(lerr) {
						fail("c12/lookup/error-off-path", "lookup of non-member %q off the faulted path failed with %v instead of not-found", name, lerr)
					}
				}
				if res.Violation != nil {
					break
				}
			}
			if res.Violation != nil {
				break
			}
			// ---- the same lookups again, twice each, on ONE node: whatever the
			// node remembers from an earlier call must not turn a load error
			// into not-found (or the reverse) later
			{
				n, _, err := fresh()
				if err != nil {
					fail("c12/lookup/open-failed", "reify root: %v", err)
					break
				}
				for round := 0; round < 2 && res.Violation == nil; round++ {
					for _, name := range names {
						want := model.LookupWith(name, unavail)
						var got datamodel.Node
						var lerr error
						panicked, site, pmsg := guard(func() { got, lerr = lookup(n, name) })
						res.Execs++
						if panicked {
							fail("c12/lookup/panic@"+site, "repeated lookup %q panicked: %s", name, pmsg)
							break
						}
						switch {
						case want.Blocked:
							if lerr == nil || isNotFoundResult(lerr) || !isLoadError(lerr) {
								fail("c12/lookup/repeated-lookup-loses-load-error", "lookup %q (call %d on the same node) crosses unavailable shard %s but returned (%v, %v)", name, round+1, shortCid(want.BlockedAt), got, lerr)
							}
						case want.Found:
							if lerr != nil {
								fail("c12/lookup/repeated-lookup-differs", "lookup %q (call %d on the same node) does not cross an unavailable shard but failed: %v", name, round+1, lerr)
							} else if l, err := got.AsLink(); err != nil || !l.(cidlink.Link).Cid.Equals(want.Link) {
								fail("c12/lookup/repeated-lookup-differs", "lookup %q (call %d on the same node) returned %v, want %s", name, round+1, l, want.Link)
							}
						default:
							if !isNotFoundResult(lerr) {
								fail("c12/lookup/repeated-lookup-differs", "lookup of non-member %q (call %d on the same node) returned (%v, %v) instead of not-found", name, round+1, got, lerr)
							}
						}
						if res.Violation != nil {
							break
						}
					}
				}
				res.Events += len(st.Log)
				res.probe("repeated-lookups-same-node")
				if res.Violation != nil {
					break
				}
				// the store recovers: the same node must now give the true answers
				st.ReadPolicy = nil
				for _, name := range names {
					want := model.Lookup(name)
					var got datamodel.Node
					var lerr error
					panicked, site, pmsg := guard(func() { got, lerr = lookup(n, name) })
					res.Execs++
					if panicked {
						fail("c12/lookup/panic@"+site, "lookup %q after recovery panicked: %s", name, pmsg)
						break
					}
					if want.Found {
						if lerr != nil {
							fail("c12/lookup/stale-result-after-recovery", "the shard is available again but lookup %q on the same node still fails: %v", name, lerr)
						} else if l, err := got.AsLink(); err != nil || !l.(cidlink.Link).Cid.Equals(want.Link) {
							fail("c12/lookup/stale-result-after-recovery", "lookup %q after recovery returned %v, want %s", name, l, want.Link)
						}
					} else if !isNotFoundResult(lerr) {
						fail("c12/lookup/stale-result-after-recovery", "the shard is available again but lookup of non-member %q returned (%v, %v)", name, got, lerr)
					}
					if res.Violation != nil {
						break
					}
				}
				if res.Violation != nil {
					break
				}
			}
		}

		// ---- preloading reification is an operation that can report: with a
		// shard persistently unavailable it must return the load error
		if p.kth < 0 && !p.cancelCtx {
			st.ResetLog()
			st.ReadPolicy = nil
			w := world.New(st, false)
			rn, lerr := w.LoadRoot(root)
			if lerr == nil {
				hitsP := p.install(st)
				var perr error
				panicked, site, pmsg := guard(func() {
					_, perr = w.LS.KnownReifiers["unixfs-preload"](linking.LinkContext{}, rn, &w.LS)
				})
				res.Execs++
				res.Events += len(st.Log)
				res.probe("preload-under-fault")
				if panicked {
					fail("c12/preload/panic@"+site, "preload panicked: %s", pmsg)
					break
				}
				if len(hitsP()) > 0 && perr == nil {
					fail("c12/preload/error-swallowed", "a shard could not be loaded during the preloading reification but it reported success")
					break
				}
				if perr != nil && !isLoadError(perr) && !strings.Contains(perr.Error(), "could not fully explore") {
					fail("c12/preload/foreign-error", "preload failed with %q which is not the load error", perr.Error())
					break
				}
				if len(hitsP()) == 0 && perr == nil {
					// every shard is needed by a preload: the fault must have been met
					fail("c12/preload/fault-not-met", "preload succeeded without requesting the unavailable shard")
					break
				}
			}
		}

		// ---- Length() has no error result; its one way to say "could not
		// count" is 0. Asked twice on ONE node while a shard is unavailable it
		// must answer 0 or the true count both times - never the count of the
		// part that could be loaded - and the true count once the store is back.
		if p.kth < 0 && !p.cancelCtx {
			n, hitsL, err := fresh()
			if err == nil {
				var l1, l2, l3 int64
				panicked, site, pmsg := guard(func() {
					l1 = n.Length()
					l2 = n.Length()
				})
				firedL := len(hitsL()) > 0
				if !panicked {
					st.ReadPolicy = nil
					panicked, site, pmsg = guard(func() { l3 = n.Length() })
				}
				res.Execs++
				res.Events += len(st.Log)
				res.probe("length-twice-under-fault")
				full := int64(len(model.Entries))
				okLen := func(l int64) bool { return l == full || (firedL && l == 0) }
				switch {
				case panicked:
					fail("c12/length/panic@"+site, "Length() panicked: %s", pmsg)
				case !okLen(l1) || !okLen(l2):
					fail("c12/length/partial-count", "Length() on one node with a shard unavailable answered %d and then %d; the directory has %d entries (0 is the only way it has to say it could not count)", l1, l2, full)
				case l3 != full:
					fail("c12/length/stale-after-recovery", "the store recovered but Length() on the same node answers %d; the directory has %d entries", l3, full)
				}
				if res.Violation != nil {
					break
				}
			}
		}

		// ---- full iteration
		n, hits, err := fresh()
		if err != nil {
			fail("c12/iter/open-failed", "reify root: %v", err)
			break
		}
		type kv struct {
			k string
			c cid.Cid
		}
		var yielded []kv
		var errs []error
		steps := 0
		totalLinks := 0
		for _, s := range model.Shards {
			totalLinks += len(s.Links)
		}
		budget := totalLinks + len(model.Shards) + 8
		terminated := false
		panicked, site, pmsg := guard(func() {
			it := n.MapIterator()
			for steps < budget {
				if it.Done() {
					terminated = true
					return
				}
				k, v, e := it.Next()
				steps++
				if e != nil {
					errs = append(errs, e)
					continue
				}
				ks, err := k.AsString()
				if err != nil {
					errs = append(errs, fmt.Errorf("harness: key not a string: %w", err))
					continue
				}
				l, err := v.AsLink()
				if err != nil {
					errs = append(errs, fmt.Errorf("harness: value not a link: %w", err))
					continue
				}
				yielded = append(yielded, kv{ks, l.(cidlink.Link).Cid})
			}
			terminated = it.Done()
		})
		res.Execs++
		res.Events += len(st.Log)
		res.fired(st.Fired)
		st.Fired = map[string]int{}
		hit := hits()
		if panicked {
			fail("c12/iter/panic@"+site, "iteration panicked: %s", pmsg)
			break
		}
		if len(hit) > 0 {
			res.NonTrivial = true
		}
		sig = fnvMix(sig, 9, uint64(p.kind), boolU(p.kth >= 0), uint64(len(errs)), boolU(terminated))
		sig = sigOfLog(sig, st.Log)
		if !terminated {
			fail("c12/iter/no-termination", "iteration did not finish within %d steps (%d links, %d shards)", budget, totalLinks, len(model.Shards))
			break
		}
		var wantEntries []dagmodel.DirEntry
		var wantBlocked []cid.Cid
		if p.kth >= 0 {
			res.probe("kth-load-transient")
			// the shard whose load failed once is skipped by this iteration
			if len(hit) > 0 {
				h := hit[0].KeyString()
				wantEntries, wantBlocked, _ = model.Reachable(func(c cid.Cid) bool { return c.KeyString() == h })
			} else {
				wantEntries, wantBlocked, _ = model.Reachable(nil)
			}
		} else {
			wantEntries, wantBlocked, _ = model.Reachable(unavail)
		}
		seen := map[string]int{}
		for _, y := range yielded {
			seen[y.k]++
		}
		for _, y := range yielded {
			if seen[y.k] > 1 {
				fail("c12/iter/duplicate-entry", "entry %q yielded %d times", y.k, seen[y.k])
				break
			}
			if c, ok := model.Entries[y.k]; !ok || !c.Equals(y.c) {
				fail("c12/iter/wrong-entry", "iteration yielded %q -> %s which the directory does not hold", y.k, y.c)
				break
			}
		}
		if res.Violation != nil {
			break
		}
		for _, e := range wantEntries {
			if seen[e.Name] == 0 {
				fail("c12/iter/lost-entry", "entry %q is reachable without the unavailable shards but was not yielded (%d yielded, %d expected, %d errors)", e.Name, len(yielded), len(wantEntries), len(errs))
				break
			}
		}
		if res.Violation != nil {
			break
		}
		if len(yielded) != len(wantEntries) {
			fail("c12/iter/extra-entry", "iteration yielded %d entries, %d are reachable", len(yielded), len(wantEntries))
			break
		}
		if len(errs) != len(wantBlocked) {
			fail("c12/iter/error-count", "iteration reported %d errors, it meets %d unavailable shards", len(errs), len(wantBlocked))
			break
		}
		for _, e := range errs {
			if !isLoadError(e) {
				fail("c12/iter/foreign-error", "iteration reported %q which is not the load error", e.Error())
				break
			}
		}
		if res.Violation != nil {
			break
		}
		// ---- lookups on the node that has just been LISTED under the fault:
		// whatever the listing left behind in the node, a name below an
		// unavailable shard still answers with the load error, and a name
		// elsewhere with its link
		if p.kth < 0 && !p.cancelCtx && len(hit) > 0 {
			blockedSeen, freeSeen := 0, 0
			for _, e := range model.Order {
				want := model.LookupWith(e.Name, unavail)
				if (want.Blocked && blockedSeen >= 3) || (!want.Blocked && freeSeen >= 2) {
					continue
				}
				var got datamodel.Node
				var lerr error
				panicked, site, pmsg := guard(func() { got, lerr = lookup(n, e.Name) })
				res.Execs++
				if panicked {
					fail("c12/lookup/panic@"+site, "lookup %q after a listing panicked: %s", e.Name, pmsg)
					break
				}
				if want.Blocked {
					blockedSeen++
					if lerr == nil || isNotFoundResult(lerr) || !isLoadError(lerr) {
						fail("c12/lookup/after-listing-loses-load-error", "the node was listed to the end with shard %s unavailable; a lookup of %q (below that shard) on the same node then returned (%v, %v) instead of the load error", shortCid(want.BlockedAt), e.Name, got, lerr)
						break
					}
				} else {
					freeSeen++
					if lerr != nil {
						fail("c12/lookup/after-listing-differs", "after a listing under the fault, lookup %q (not below an unavailable shard) failed: %v", e.Name, lerr)
						break
					} else if l, err := got.AsLink(); err != nil || !l.(cidlink.Link).Cid.Equals(want.Link) {
						fail("c12/lookup/after-listing-differs", "after a listing under the fault, lookup %q returned %v, want %s", e.Name, l, want.Link)
						break
					}
				}
			}
			res.probe("lookups-after-listing-under-fault")
			if res.Violation != nil {
				break
			}
		}
		// ---- the store recovers: iterating the SAME node again must now
		// yield every entry once and no error
		if p.cancel != nil {
			p.cancel()
		}
		if len(hit) > 0 && !p.cancelCtx {
			st.ReadPolicy = nil
			count, nerr, dup := 0, 0, false
			seen2 := map[string]bool{}
			panicked, site, pmsg := guard(func() {
				it := n.MapIterator()
				for steps := 0; !it.Done() && steps < budget; steps++ {
					k, _, e := it.Next()
					if e != nil {
						nerr++
						continue
					}
					ks, _ := k.AsString()
					if seen2[ks] {
						dup = true
					}
					seen2[ks] = true
					count++
				}
			})
			res.Execs++
			res.probe("iterate-again-after-recovery")
			if panicked {
				fail("c12/iter/panic@"+site, "iteration after recovery panicked: %s", pmsg)
				break
			}
			if nerr != 0 || dup || count != len(model.Entries) {
				fail("c12/iter/failure-remembered-after-recovery", "after the store recovered, iterating the same node again yielded %d of %d entries with %d errors (duplicates: %v)", count, len(model.Entries), nerr, dup)
				break
			}
		}
	}
	res.Sig = sig
	return res
}
