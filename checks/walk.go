package checks

import (
	dagpb "github.com/ipld/go-codec-dagpb"
	"github.com/ipld/go-ipld-prime/datamodel"
	"github.com/ipld/go-ipld-prime/node/basicnode"
	"github.com/ipld/go-ipld-prime/traversal"
	"github.com/ipld/go-ipld-prime/traversal/selector"

	"verif/sim/world"
)

// walkMatching runs a compiled selector from start the way a consumer of
// this library does: dag-pb aware prototype chooser, the world's link system
// (which carries the UnixFS reifiers).
func walkMatching(w *world.World, start datamodel.Node, selNode datamodel.Node, visit traversal.VisitFn) error {
	sel, err := selector.CompileSelector(selNode)
	if err != nil {
		return err
	}
	prog := traversal.Progress{Cfg: &traversal.Config{
		LinkSystem:                     w.LS,
		LinkTargetNodePrototypeChooser: dagpb.AddSupportToChooser(basicnode.Chooser),
	}}
	return prog.WalkMatching(start, sel, visit)
}
