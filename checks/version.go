package checks

import (
	"embed"
	"fmt"
	"sort"

	"verif/sim/gen"
	"verif/sim/tape"
)

// The tapes of a replay file only mean what they meant when they were
// recorded as long as the code that decodes them is unchanged. LayoutHash
// fingerprints that code (this package and the generators); replay files carry
// it, and a recorded regression replay with another fingerprint is refused
// (exit 2) until it is re-recorded with tools/rerecord.sh.

//go:embed *.go
var sources embed.FS

// LayoutHash returns the fingerprint of the tape-decoding code.
func LayoutHash() string {
	h := uint64(0)
	ents, _ := sources.ReadDir(".")
	names := []string{}
	for _, e := range ents {
		names = append(names, e.Name())
	}
	sort.Strings(names)
	for _, n := range names {
		b, _ := sources.ReadFile(n)
		h = fnvMix(h, tape.HashString(n), tape.HashString(string(b)))
	}
	h = fnvMix(h, gen.SourceHash())
	return fmt.Sprintf("%016x", h)
}
