package checks

import (
	"fmt"
	"io"
	"strings"

	"github.com/ipfs/go-cid"
	unixfsnode "github.com/ipfs/go-unixfsnode"
	"github.com/ipfs/go-unixfsnode/data"
	"github.com/ipfs/go-unixfsnode/iter"
	dagpb "github.com/ipld/go-codec-dagpb"
	"github.com/ipld/go-ipld-prime/datamodel"
	"github.com/ipld/go-ipld-prime/node/basicnode"
	"github.com/ipld/go-ipld-prime/traversal"
	mh "github.com/multiformats/go-multihash"

	"verif/sim/gen"
	"verif/sim/store"
	"verif/sim/tape"
	"verif/sim/world"
)

// C13 — malformed or hostile blocks produce errors, never panics or unbounded work.
type c13 struct{}

func init() { register(c13{}) }

func (c13) ID() string    { return "C13" }
func (c13) Level() string { return "exploration" }
func (c13) Technique() string {
	return "deterministic simulation with data-fault injection on the simulated disk (trusted storage, so corrupted bytes reach the decoders): bit rot, torn and misdirected reads and grammar-aware rewrites of dag-pb/UnixFS fields of stored blocks, applied at rest or at the k-th read, followed by every node operation under recover() with event budgets; decoder clause fed with the harvested corrupted payloads (plain input generation, reported as such)"
}
func (c13) Rule() string {
	return "one evaluation = one node operation (reify lazy/preload, Length, lookups by string/node/segment/native, MapIterator, native Iterator, AsBytes, Seek/Read history, entity/preload selector walk) or one decoder call on a seeded DAG with 1-3 corrupted blocks; non-trivial = at least one corrupted block was actually delivered to the library during the operation; distinct = distinct (corruption kinds, operation, outcome class, seam event sequence) signature"
}
func (c13) Assumptions() []string {
	return []string{
		"corruptions keep the block graph acyclic (a misdirected read never returns a block from which the requested block is reachable, and never a larger subtree): cycles are outside the statement",
		"work is bounded in events, not seconds: loads <= 16x(block occurrences)+64, iteration steps <= 16x(links)+64, productive reads <= 16x(content+stored bytes)+64 per operation; a run exceeding the wall-clock watchdog is confirmed in a fresh process before it is reported",
		"the decoder clause (arbitrary bytes into DecodeUnixFSData/DecodeUnixTime/DecodeUnixFSMetadata) has no schedule or fault dimension; it is ordinary input generation fed from the same injector",
	}
}
func (c13) RealStub() map[string]string {
	return realStub("LinkSystem.TrustedStorage=true: the simulated disk is trusted, so bit rot / misdirected reads are not caught by hashing")
}
func (c13) Runs(t Tier) int {
	if t == Thorough {
		return 250000
	}
	return 9000
}
func (c13) RecordWidths() map[string]int { return map[string]int{"corrupt": 4} }
func (c13) RequiredProbes() []string {
	return []string{"bitflip", "truncate", "extend", "misdirected", "type-rewrite", "fanout-rewrite", "fanout-mismatch-parent-child", "bitfield-longer", "bitfield-shorter", "hashtype-rewrite", "filesize-rewrite", "blocksizes-rewrite", "name-absent", "name-short", "name-duplicate", "tsize-absent", "corrupt-at-kth-read", "link-retarget", "hostile-cbor-child", "deep-shard-chain", "mixed-fanout-chain", "diamond-shard-chain", "decoder-bytes", "op-error", "op-ok-despite-corruption"}
}

type c13Scenario struct {
	Kind        string   `json:"kind"`
	Spec        string   `json:"spec"`
	Corruptions []string `json:"corruptions"`
	FailedOp    string   `json:"failed_op,omitempty"`
}

// subtree info for keeping the graph acyclic under misdirected reads
type blockInfo struct {
	c     cid.Cid
	links []cid.Cid
	size  int // expansion size (occurrences) of the subtree
}

func buildInfo(st *store.Store, root cid.Cid) (map[string]*blockInfo, []cid.Cid) {
	info := map[string]*blockInfo{}
	var order []cid.Cid
	var walk func(c cid.Cid, depth int) int
	walk = func(c cid.Cid, depth int) int {
		if bi, ok := info[c.KeyString()]; ok {
			return bi.size
		}
		bi := &blockInfo{c: c, size: 1}
		info[c.KeyString()] = bi
		order = append(order, c)
		data, ok := st.Get(c)
		if ok && depth < 64 {
			ls, _ := blockLinks(c, data)
			bi.links = ls
			for _, l := range ls {
				if st.Has(l) {
					bi.size += walk(l, depth+1)
					if bi.size > 1<<24 {
						bi.size = 1 << 24 // saturate: shared sub-DAGs expand exponentially
					}
				}
			}
		}
		return bi.size
	}
	walk(root, 0)
	return info, order
}

func reaches(info map[string]*blockInfo, from, to cid.Cid) bool {
	seen := map[string]bool{}
	var f func(c cid.Cid) bool
	f = func(c cid.Cid) bool {
		if c.Equals(to) {
			return true
		}
		if seen[c.KeyString()] {
			return false
		}
		seen[c.KeyString()] = true
		if bi, ok := info[c.KeyString()]; ok {
			for _, l := range bi.links {
				if f(l) {
					return true
				}
			}
		}
		return false
	}
	return f(from)
}

// corruptBlock applies one corruption drawn from (kind, a, b) to the bytes of
// block c. It returns the new bytes and a description, or nil if the kind does
// not apply to this block.
func corruptBlock(res *Result, st *store.Store, info map[string]*blockInfo, order []cid.Cid, c cid.Cid, orig []byte, kind int, a, b uint64) ([]byte, string) {
	isPB := c.Prefix().Codec == cid.DagProtobuf
	switch kind {
	case 0: // bit flip
		if len(orig) == 0 {
			return nil, ""
		}
		out := append([]byte(nil), orig...)
		i := int(a % uint64(len(out)))
		out[i] ^= 1 << (b % 8)
		res.probe("bitflip")
		return out, fmt.Sprintf("bitflip@%d", i)
	case 1: // byte overwrite
		if len(orig) == 0 {
			return nil, ""
		}
		out := append([]byte(nil), orig...)
		i := int(a % uint64(len(out)))
		out[i] = byte(b)
		res.probe("bitflip")
		return out, fmt.Sprintf("overwrite@%d=%02x", i, byte(b))
	case 2: // truncate (torn read)
		if len(orig) == 0 {
			return nil, ""
		}
		res.probe("truncate")
		k := int(a % uint64(len(orig)))
		return append([]byte(nil), orig[:k]...), fmt.Sprintf("truncate->%d", k)
	case 3: // extend
		res.probe("extend")
		out := append([]byte(nil), orig...)
		r := tape.NewSplitMix(a)
		for i := 0; i < 1+int(b%12); i++ {
			out = append(out, byte(r.Next()))
		}
		return out, "extend"
	case 4: // misdirected read
		var cands []cid.Cid
		self := info[c.KeyString()]
		for _, o := range order {
			if o.Equals(c) {
				continue
			}
			oi := info[o.KeyString()]
			if self != nil && oi.size > self.size {
				continue
			}
			if reaches(info, o, c) {
				continue
			}
			cands = append(cands, o)
		}
		if len(cands) == 0 {
			return nil, ""
		}
		o := cands[int(a%uint64(len(cands)))]
		data, _ := st.Get(o)
		res.probe("misdirected")
		return append([]byte(nil), data...), "misdirected<-" + shortCid(o)
	}
	if !isPB {
		return nil, ""
	}
	rn, ok := gen.DecodeRawNode(orig)
	if !ok {
		return nil, ""
	}
	var u *gen.RawUnixFS
	if rn.HasData {
		u, _ = gen.DecodeRawUnixFS(rn.Data)
	}
	desc := ""
	switch kind {
	case 5: // type rewrite
		if u == nil {
			return nil, ""
		}
		u.Type = []uint64{0, 1, 2, 3, 4, 5, 6, 7, 255, 1 << 40, 1 << 63, 1<<64 - 1}[a%12]
		u.HasType = b%7 != 0
		res.probe("type-rewrite")
		desc = fmt.Sprintf("type=%d present=%v", u.Type, u.HasType)
	case 6: // fanout rewrite
		if u == nil || !u.HasFanout {
			return nil, ""
		}
		old := u.Fanout
		u.Fanout = []uint64{0, 1, 2, 3, 8, 16, 256, 1024, 2048, 1 << 63, 7, 1 << 20, 1 << 40, 1 << 62}[a%14]
		u.HasFanout = b%9 != 0
		res.probe("fanout-rewrite")
		if old != u.Fanout && u.HasFanout && u.Fanout >= 8 && u.Fanout <= 1024 && u.Fanout&(u.Fanout-1) == 0 {
			res.probe("fanout-mismatch-parent-child")
		}
		desc = fmt.Sprintf("fanout=%d present=%v", u.Fanout, u.HasFanout)
	case 7: // bitfield
		if u == nil || !u.HasFanout {
			return nil, ""
		}
		switch a % 5 {
		case 0:
			fb := u.Fanout / 8
			if fb > 4000 {
				fb = 4000
			}
			n := int(fb) + 1 + int(b%40)
			bf := make([]byte, n)
			r := tape.NewSplitMix(b)
			for i := range bf {
				bf[i] = byte(r.Next())
			}
			bf[0] |= 1
			u.Data, u.HasData = bf, true
			res.probe("bitfield-longer")
			desc = fmt.Sprintf("bitfield longer (%d bytes for fanout %d)", n, u.Fanout)
		case 1:
			if len(u.Data) > 0 {
				u.Data = u.Data[:int(b%uint64(len(u.Data)))]
			}
			res.probe("bitfield-shorter")
			desc = "bitfield shorter"
		case 2:
			u.HasData = false
			res.probe("bitfield-shorter")
			desc = "bitfield absent"
		case 3: // all ones: more bits than links
			nb := (u.Fanout + 7) / 8
			if nb > 4096 || nb == 0 {
				nb = 4096
			}
			bf := make([]byte, nb)
			for i := range bf {
				bf[i] = 0xff
			}
			u.Data, u.HasData = bf, true
			res.probe("bitfield-longer")
			desc = "bitfield all ones"
		default: // all zero / random: inconsistent with link count
			bf := make([]byte, len(u.Data))
			r := tape.NewSplitMix(b)
			for i := range bf {
				if b%2 == 0 {
					bf[i] = byte(r.Next())
				}
			}
			u.Data = bf
			res.probe("bitfield-shorter")
			desc = "bitfield inconsistent"
		}
	case 8: // hash type
		if u == nil {
			return nil, ""
		}
		u.HashType = []uint64{0, 0x12, 0x22, 0x23, 1 << 50}[a%5]
		u.HasHashType = b%5 != 0
		res.probe("hashtype-rewrite")
		desc = fmt.Sprintf("hashType=%#x present=%v", u.HashType, u.HasHashType)
	case 9: // file size
		if u == nil {
			return nil, ""
		}
		u.FileSize = []uint64{0, 1, 1 << 31, 1<<63 - 1, 1 << 63, 1<<64 - 1, u.FileSize + 1, u.FileSize / 2}[a%8]
		u.HasFileSize = b%6 != 0
		res.probe("filesize-rewrite")
		desc = fmt.Sprintf("filesize=%d present=%v", u.FileSize, u.HasFileSize)
	case 10: // block sizes
		if u == nil {
			return nil, ""
		}
		switch a % 6 {
		case 0:
			u.BlockSizes = nil
			desc = "blocksizes removed"
		case 1:
			u.BlockSizes = append(u.BlockSizes, b%1000, 1<<63)
			desc = "blocksizes extra"
		case 2:
			if len(u.BlockSizes) > 0 {
				u.BlockSizes = u.BlockSizes[:len(u.BlockSizes)/2]
			}
			desc = "blocksizes fewer"
		case 3:
			for i := range u.BlockSizes {
				if i%2 == int(b%2) {
					u.BlockSizes[i] = []uint64{0, 1<<64 - 1, 1 << 63, u.BlockSizes[i] + 1, 1 << 62}[(b>>8)%5]
				}
			}
			desc = "blocksizes wrong/negative"
		case 4:
			u.PackSizes = true
			desc = "blocksizes packed"
		default:
			for i := range u.BlockSizes {
				u.BlockSizes[i] = 0
			}
			desc = "blocksizes zero"
		}
		res.probe("blocksizes-rewrite")
	case 11: // link names
		if len(rn.Links) == 0 {
			return nil, ""
		}
		i := int(a % uint64(len(rn.Links)))
		switch b % 5 {
		case 0:
			rn.Links[i].HasName = false
			res.probe("name-absent")
			desc = fmt.Sprintf("link %d name absent", i)
		case 1:
			if len(rn.Links[i].Name) > 0 {
				rn.Links[i].Name = rn.Links[i].Name[:int((b>>8)%uint64(len(rn.Links[i].Name)))]
			}
			res.probe("name-short")
			desc = fmt.Sprintf("link %d name shortened to %q", i, rn.Links[i].Name)
		case 2:
			j := int((b >> 8) % uint64(len(rn.Links)))
			rn.Links[i].Name, rn.Links[i].HasName = rn.Links[j].Name, rn.Links[j].HasName
			res.probe("name-duplicate")
			desc = fmt.Sprintf("link %d name duplicated from %d", i, j)
		case 3:
			rn.Links[i].Name, rn.Links[i].HasName = "", true
			res.probe("name-short")
			desc = fmt.Sprintf("link %d name empty", i)
		default:
			for k := range rn.Links {
				rn.Links[k].HasName = false
			}
			res.probe("name-absent")
			desc = "all link names absent"
		}
	case 12: // tsize
		if len(rn.Links) == 0 {
			return nil, ""
		}
		for k := range rn.Links {
			if uint64(k)%2 == a%2 {
				switch b % 3 {
				case 0:
					rn.Links[k].HasTsize = false
				case 1:
					rn.Links[k].Tsize = 1<<64 - 1
				default:
					rn.Links[k].Tsize = 0
				}
			}
		}
		res.probe("tsize-absent")
		desc = "tsize absent/negative/zero"
	case 13: // links dropped / reordered (still a DAG)
		if len(rn.Links) < 1 || (len(rn.Links) < 2 && b%3 != 2) {
			return nil, ""
		}
		if b%3 == 2 {
			rn.Links = nil
			desc = "all links dropped"
		} else if b%2 == 0 {
			rn.Links = rn.Links[:len(rn.Links)-1]
			desc = "last link dropped"
		} else {
			rn.Links[0], rn.Links[len(rn.Links)-1] = rn.Links[len(rn.Links)-1], rn.Links[0]
			desc = "links reordered"
		}
		res.probe("name-duplicate")
	case 14: // data field absent or garbage
		if b%2 == 0 {
			rn.HasData = false
			desc = "Data absent"
		} else {
			r := tape.NewSplitMix(a)
			g := make([]byte, 1+b%24)
			for i := range g {
				g[i] = byte(r.Next())
			}
			rn.Data, rn.HasData = g, true
			u = nil
			desc = "Data garbage"
		}
		res.probe("type-rewrite")
	case 15: // a self-consistent shard of a different fanout than its parent
		if u == nil || !u.HasFanout || u.Fanout < 8 || u.Fanout > 1024 || len(rn.Links) == 0 {
			return nil, ""
		}
		oldPad := len(fmt.Sprintf("%X", u.Fanout-1))
		nf := []uint64{8, 16, 64, 256, 1024}[a%5]
		if nf == u.Fanout {
			nf = []uint64{8, 16, 64, 256, 1024}[(a+1)%5]
		}
		newPad := len(fmt.Sprintf("%X", nf-1))
		n := len(rn.Links)
		if uint64(n) > nf {
			n = int(nf)
			rn.Links = rn.Links[:n]
		}
		bf := make([]byte, nf/8)
		for i := 0; i < n; i++ {
			// bucket i holds link i: bits 0..n-1 set
			bf[len(bf)-1-i/8] |= 1 << (uint(i) % 8)
			name := rn.Links[i].Name
			if len(name) >= oldPad {
				name = name[oldPad:]
			}
			rn.Links[i].Name, rn.Links[i].HasName = fmt.Sprintf("%0*X%s", newPad, i, name), true
		}
		u.Fanout, u.Data, u.HasData = nf, bf, true
		res.probe("fanout-mismatch-parent-child")
		desc = fmt.Sprintf("re-encoded as a consistent fanout-%d shard", nf)
	case 16: // a link retargeted to a block of another kind (still acyclic)
		if len(rn.Links) == 0 {
			return nil, ""
		}
		var cands []cid.Cid
		for _, o := range order {
			if o.Equals(c) || reaches(info, o, c) {
				continue
			}
			if self := info[c.KeyString()]; self != nil && info[o.KeyString()].size > self.size {
				continue
			}
			cands = append(cands, o)
		}
		// plus blocks that are not part of this DAG at all: a raw block, an
		// identity CID, a CID with a codec nothing is registered for
		extra := gen.PutRaw(st, []byte("stray raw block"))
		cands = append(cands, extra)
		// ... and the smallest decodable dag-pb blocks there are: the empty
		// block (no Data field, no links) and one whose Data is empty
		for _, mini := range [][]byte{{}, {0x0a, 0x00}} {
			if mc, err := (cid.Prefix{Version: 1, Codec: cid.DagProtobuf, MhType: mh.SHA2_256, MhLength: 32}).Sum(mini); err == nil {
				st.Put(mc, mini)
				cands = append(cands, mc)
			}
		}
		i := int(a % uint64(len(rn.Links)))
		switch b % 4 {
		case 0, 1:
			t := cands[int((b>>8)%uint64(len(cands)))]
			rn.Links[i].Hash = t.Bytes()
			desc = fmt.Sprintf("link %d retargeted to %s", i, shortCid(t))
		case 2:
			// a dag-cbor block of a hostile shape (Links that is not a list, a
			// plain string, dag-pb look-alikes ...): "any child blocks"
			t := gen.PutHostileCbor(st, int(b>>8), extra)
			if !t.Defined() {
				return nil, ""
			}
			rn.Links[i].Hash = t.Bytes()
			desc = fmt.Sprintf("link %d retargeted to hostile dag-cbor block (variant %d)", i, int(b>>8)%7)
			res.probe("hostile-cbor-child")
		default:
			r := tape.NewSplitMix(b)
			g := make([]byte, 1+(b>>8)%40)
			for k := range g {
				g[k] = byte(r.Next())
			}
			rn.Links[i].Hash = g
			desc = fmt.Sprintf("link %d hash replaced by %d garbage bytes", i, len(g))
		}
		res.probe("link-retarget")
	default:
		return nil, ""
	}
	if u != nil && rn.HasData {
		rn.Data = u.Encode()
	}
	return rn.Encode(), desc
}

const nCorruptKinds = 17

func (c13) Run(ts *tape.Set, tier Tier) *Result {
	res := &Result{}
	shape := ts.T("shape")
	isDir := shape.Pick(1, 1) == 1
	st := store.New()
	sc := &c13Scenario{}
	res.Scenario = sc
	var root cid.Cid
	var names []string
	deepChain := isDir && shape.Intn(8) == 0
	diamond := isDir && !deepChain && shape.Intn(10) == 0
	if diamond {
		// depth+1 blocks, 2^depth paths. Operations whose result is one value
		// (reify, preload, Length, lookups) must stay proportional to the
		// blocks; operations whose output IS the expansion (iteration yields
		// every path's entries) are not run on this shape: their work is
		// proportional to what they return
		fan := []int{8, 16, 256}[shape.Intn(3)]
		depth := 30 + shape.Intn(30)
		leaves := shape.Intn(3)
		root = gen.WriteDiamondShardChain(st, fan, depth, leaves)
		names = []string{"leaf0", "leaf1"}
		sc.Kind, sc.Spec = "dir", fmt.Sprintf("hand-made diamond shard chain fanout=%d depth=%d (2^%d paths over %d blocks) leaf entries=%d", fan, depth, depth, depth+1, leaves)
		res.probe("diamond-shard-chain")
	} else if deepChain {
		// a hand-made hostile directory: a shard chain deeper than the hash
		// has bits; lookups of the name must end in an error
		fan := []int{8, 16, 32, 64, 128, 256, 512, 1024}[shape.Intn(8)]
		w := 0
		for 1<<uint(w) < fan {
			w++
		}
		limit := 64 / w
		depth := limit - 1 + shape.Intn(4) // around the addressable limit
		if depth < 1 {
			depth = 1
		}
		name := fmt.Sprintf("deep%d", shape.Intn(1000))
		mixedSeed := shape.Raw()
		if mixedSeed%3 == 0 {
			// a short chain whose levels have different fanouts and whose entry
			// has a very short name
			fans := []int{8, 16, 256, 1024}
			depth = 2 + int(mixedSeed>>8)%3
			name = []string{"a", "b7", "é", "xyz"}[int(mixedSeed>>16)%4]
			fr := tape.NewSplitMix(mixedSeed)
			lv := make([]int, depth)
			for i := range lv {
				lv[i] = fans[int(fr.Next()%4)]
			}
			root = gen.WriteShardChain(st, func(l int) int { return lv[l] }, depth, name)
			sc.Kind, sc.Spec = "dir", fmt.Sprintf("hand-made mixed-fanout shard chain fanouts=%v entry name %q", lv, name)
			res.probe("mixed-fanout-chain")
		} else {
			root = gen.WriteDeepShardChain(st, fan, depth, name)
			sc.Kind, sc.Spec = "dir", fmt.Sprintf("hand-made shard chain fanout=%d depth=%d (hash addresses %d levels)", fan, depth, limit)
		}
		names = []string{name}
		res.probe("deep-shard-chain")
	} else if isDir {
		spec := gen.DrawDirSpec(shape, gen.DirOpts{MaxN: 60})
		r, entries, err := gen.WriteShardedDir(st, spec)
		if err != nil {
			res.Skipped, res.SkipReason = true, err.Error()
			return res
		}
		root = r
		for n := range entries {
			names = append(names, n)
		}
		sortStrings(names)
		sc.Kind, sc.Spec = "dir", spec.String()
	} else {
		spec := gen.DrawFileSpec(shape, gen.FileOpts{MaxSize: 2 << 10, AllowOdd: true, AllowNoSizes: true})
		r, _, err := gen.WriteFile(st, spec)
		if err != nil {
			res.Skipped, res.SkipReason = true, err.Error()
			return res
		}
		root = r
		sc.Kind, sc.Spec = "file", spec.String()
	}
	info, order := buildInfo(st, root)
	occ := info[root.KeyString()].size
	storedBytes := 0
	totalLinks := 0
	for _, c := range order {
		b, _ := st.Get(c)
		storedBytes += len(b)
		totalLinks += len(info[c.KeyString()].links)
	}

	// ---- corruptions: 1..3 records of 4 cells
	ct := ts.T("corrupt")
	nCor := 1 + shape.Pick(5, 3, 2, 1)
	replace := map[string][]byte{}
	kth := map[string]int{} // cid -> only from the k-th request of it on
	var payloads [][]byte
	var prevTarget cid.Cid
	for i := 0; i < nCor; i++ {
		// bias towards the root and shallow blocks (always reached) and towards
		// stacking several rewrites on one block (combinations such as a
		// smaller fanout together with a shortened name)
		var target cid.Cid
		ti := ct.Raw()
		switch {
		case prevTarget.Defined() && ti%2 == 0:
			target = prevTarget
		case ti%3 == 0:
			target = root
		default:
			target = order[int((ti>>8)%uint64(len(order)))]
		}
		prevTarget = target
		kind := ct.Intn(nCorruptKinds + 6)
		if kind >= nCorruptKinds {
			kind = 5 + (kind-nCorruptKinds)%8 // extra weight on field-aware kinds
		}
		a, b := ct.Raw(), ct.Raw()
		cur, ok := replace[target.KeyString()]
		if !ok {
			cur, _ = st.Get(target)
		}
		var nb []byte
		var desc string
		for try := 0; try < nCorruptKinds && nb == nil; try++ {
			nb, desc = corruptBlock(res, st, info, order, target, cur, (kind+try)%nCorruptKinds, a, b)
		}
		if nb == nil {
			continue
		}
		replace[target.KeyString()] = nb
		when := ""
		if b%5 == 0 && !target.Equals(root) {
			kth[target.KeyString()] = 1
			when = " from its 2nd read on"
			res.probe("corrupt-at-kth-read")
		}
		sc.Corruptions = append(sc.Corruptions, shortCid(target)+": "+desc+when)
		if rn, ok := gen.DecodeRawNode(nb); ok && rn.HasData {
			payloads = append(payloads, rn.Data)
		}
		payloads = append(payloads, nb)
	}
	if diamond {
		replace = map[string][]byte{}
		sc.Corruptions = nil
		res.NonTrivial = true
	}
	if len(replace) == 0 && !deepChain && !diamond {
		res.Skipped, res.SkipReason = true, "no corruption applicable"
		return res
	}
	if deepChain {
		res.NonTrivial = true
		if shape.Intn(2) == 0 {
			// the pure hand-made DAG, no further corruption
			replace = map[string][]byte{}
			sc.Corruptions = nil
		}
	}

	nodeReifier := ct.Raw()%3 == 0
	delivered := 0
	seenReq := map[string]int{}
	install := func() {
		delivered = 0
		seenReq = map[string]int{}
		st.ResetLog()
		st.ReadPolicy = func(_ int, c cid.Cid) *store.ReadFault {
			k := c.KeyString()
			n := seenReq[k]
			seenReq[k]++
			if nb, ok := replace[k]; ok && n >= kth[k] {
				delivered++
				return &store.ReadFault{Kind: store.Corrupt, Replace: nb}
			}
			return nil
		}
	}
	var sig uint64
	runOp := func(name string, calls int, f func(w *world.World) (string, error)) bool {
		// every library call may legitimately walk the whole (corrupted) DAG
		loadBudget := calls*(16*occ) + 64
		install()
		w := newWorld(st, true, nodeReifier)
		var outcome string
		var err error
		panicked, site, pmsg := guard(func() { outcome, err = f(w) })
		res.Execs++
		res.Events += len(st.Log)
		if delivered > 0 {
			res.NonTrivial = true
		}
		if err != nil {
			res.probe("op-error")
		} else if delivered > 0 {
			res.probe("op-ok-despite-corruption")
		}
		sig = sigOfLog(fnvMix(sig, tape.HashString(name), boolU(err == nil), boolU(panicked)), excerpt(st.Log, 8))
		if panicked {
			sc.FailedOp = name
			res.Violation = &Violation{Class: "c13/panic@" + site, Msg: fmt.Sprintf("%s panicked: %s", name, pmsg)}
			res.Excerpt = excerpt(st.Log, 12)
			return false
		}
		if outcome == "budget" {
			sc.FailedOp = name
			res.Violation = &Violation{Class: "c13/unbounded-work@" + name, Msg: fmt.Sprintf("%s exceeded its step budget: %v", name, err)}
			res.Excerpt = excerpt(st.Log, 12)
			return false
		}
		if len(st.ReadCids) > loadBudget {
			sc.FailedOp = name
			res.Violation = &Violation{Class: "c13/unbounded-loads@" + name, Msg: fmt.Sprintf("%s issued %d block loads on a DAG of %d block occurrences (budget %d)", name, len(st.ReadCids), occ, loadBudget)}
			res.Excerpt = excerpt(st.Log, 12)
			return false
		}
		return true
	}

	opSeed := shape.Raw()
	// ---- operations common to both kinds: reify lazy / preload, selector walks
	reify := func(w *world.World, preload bool) (datamodel.Node, error) {
		if preload {
			return w.ReifyPreload(root)
		}
		return w.Reify(root)
	}
	for _, preload := range []bool{false, true} {
		preload := preload
		label := map[bool]string{false: "lazy", true: "preload"}[preload]
		if !runOp("reify-"+label, 1, func(w *world.World) (string, error) {
			_, err := reify(w, preload)
			return "", err
		}) {
			res.Sig = sig
			return res
		}
		if isDir {
			if !runOp("dir-ops-"+label, 8, func(w *world.World) (string, error) {
				n, err := reify(w, preload)
				if err != nil || n == nil {
					return "", err
				}
				_ = n.Length()
				_ = n.Kind()
				r := tape.NewSplitMix(opSeed)
				probe := []string{"", "0", "00", "000", "zz", "FF", "f0", "m0"}
				for i := 0; i < 6 && len(names) > 0; i++ {
					nm := names[int(r.Next()%uint64(len(names)))]
					probe = append(probe, nm, nm+"x", nm[:len(nm)/2])
				}
				if len(names) <= 64 {
					// every member: each lands in its own bucket, so whichever link
					// was tampered with is the target of some lookup
					probe = append(probe, names...)
				}
				var lastErr error
				for _, p := range probe {
					if _, err := n.LookupByString(p); err != nil {
						lastErr = err
					}
					_, _ = n.LookupByNode(basicnode.NewString(p))
					_, _ = n.LookupBySegment(datamodel.PathSegmentOfString(p))
					if nl, ok := n.(interface {
						Lookup(dagpb.String) dagpb.Link
					}); ok {
						nb := dagpb.Type.String.NewBuilder()
						_ = nb.AssignString(p)
						_ = nl.Lookup(nb.Build().(dagpb.String))
					}
				}
				_, _ = n.LookupByIndex(0)
				if diamond {
					_ = n.Length()
					return "", lastErr
				}
				// full map iteration
				budget := 16*totalLinks + 64
				if it := n.MapIterator(); it != nil {
					steps := 0
					for !it.Done() {
						k, v, err := it.Next()
						steps++
						if err != nil {
							lastErr = err
						} else {
							if k != nil {
								_, _ = k.AsString()
							}
							if v != nil {
								_, _ = v.AsLink()
							}
						}
						if steps > budget {
							return "budget", fmt.Errorf("MapIterator not done after %d steps (%d links stored)", steps, totalLinks)
						}
					}
				}
				// native iterator
				if ni, ok := n.(interface{ Iterator() *iter.UnixFSDir__Itr }); ok {
					it := ni.Iterator()
					steps := 0
					for !it.Done() {
						k, v := it.Next()
						steps++
						if k != nil {
							_ = k.String()
						}
						_ = v
						if steps > budget {
							return "budget", fmt.Errorf("native Iterator not done after %d steps (%d links stored)", steps, totalLinks)
						}
					}
				}
				_ = n.Length()
				return "", lastErr
			}) {
				res.Sig = sig
				return res
			}
		} else {
			if !runOp("file-ops-"+label, 45, func(w *world.World) (string, error) {
				n, err := reify(w, preload)
				if err != nil || n == nil {
					return "", err
				}
				var lastErr error
				if n.Kind() == datamodel.Kind_Bytes {
					if _, err := n.AsBytes(); err != nil {
						lastErr = err
					}
				}
				lb, ok := n.(datamodel.LargeBytesNode)
				if !ok {
					// reified as something else (type rewritten): exercise the map view
					_ = n.Length()
					if it := n.MapIterator(); it != nil {
						for steps := 0; !it.Done() && steps < 16*totalLinks+64; steps++ {
							_, _, _ = it.Next()
						}
					}
					_, _ = n.LookupByString("x")
					return "", lastErr
				}
				rs, err := lb.AsLargeBytes()
				if err != nil {
					return "", err
				}
				r := tape.NewSplitMix(opSeed)
				readBudget := 16*(storedBytes+2048) + 64
				productive := 0
				for i := 0; i < 40; i++ {
					v := r.Next()
					switch v % 5 {
					case 0, 1:
						buf := make([]byte, 1+(v>>8)%300)
						n, err := rs.Read(buf)
						if n > 0 {
							productive++
						}
						if err != nil && err != io.EOF {
							lastErr = err
						}
					case 2:
						_, err := rs.Seek(int64((v>>8)%4096), io.SeekStart)
						if err != nil {
							lastErr = err
						}
					case 3:
						_, err := rs.Seek(-int64((v>>8)%300), io.SeekEnd)
						if err != nil {
							lastErr = err
						}
					default:
						_, err := rs.Seek(int64((v>>8)%200)-100, io.SeekCurrent)
						if err != nil {
							lastErr = err
						}
					}
				}
				// drain from the start
				if _, err := rs.Seek(0, io.SeekStart); err == nil {
					buf := make([]byte, 512)
					for {
						n, err := rs.Read(buf)
						if n > 0 {
							productive++
						}
						if err != nil {
							if err != io.EOF {
								lastErr = err
							}
							break
						}
						if productive > readBudget {
							return "budget", fmt.Errorf("sequential read still producing data after %d reads (%d bytes stored)", productive, storedBytes)
						}
					}
				}
				return "", lastErr
			}) {
				res.Sig = sig
				return res
			}
		}
	}
	for i, sel := range []datamodel.Node{unixfsnode.MatchUnixFSEntitySelector.Node(), unixfsnode.MatchUnixFSPreloadSelector.Node(), unixfsnode.UnixFSPathSelector("a/b")} {
		sel := sel
		if diamond && i == 0 {
			continue // the entity selector iterates: output is the expansion
		}
		if !runOp([]string{"entity-walk", "preload-walk", "path-walk"}[i], 2, func(w *world.World) (string, error) {
			rn, err := w.LoadRoot(root)
			if err != nil {
				return "", err
			}
			var visit traversal.VisitFn = unixfsnode.BytesConsumingMatcher
			return "", walkMatching(w, rn, sel, visit)
		}) {
			res.Sig = sig
			return res
		}
	}

	// ---- decoder clause: corrupted payloads and raw tape bytes
	raw := make([]byte, 1+shape.Intn(48))
	rr := tape.NewSplitMix(shape.Raw())
	for i := range raw {
		raw[i] = byte(rr.Next())
	}
	payloads = append(payloads, raw)
	for i := 0; i < 12; i++ {
		payloads = append(payloads, gen.RandomProto(rr.Next, 0))
	}
	{
		ext := []uint64{0, 1, 5, 1 << 31, 1<<63 - 1, 1 << 63, 1<<64 - 1}
		u := &gen.RawUnixFS{Type: ext[rr.Next()%7], HasType: true, FileSize: ext[rr.Next()%7], HasFileSize: rr.Next()%2 == 0,
			HashType: ext[rr.Next()%7], HasHashType: rr.Next()%2 == 0, Fanout: ext[rr.Next()%7], HasFanout: rr.Next()%2 == 0,
			Mode: ext[rr.Next()%7], HasMode: rr.Next()%2 == 0, BlockSizes: []uint64{ext[rr.Next()%7], ext[rr.Next()%7]}, PackSizes: rr.Next()%2 == 0}
		payloads = append(payloads, u.Encode())
	}
	for _, p := range payloads {
		p := p
		for _, dec := range []string{"DecodeUnixFSData", "DecodeUnixTime", "DecodeUnixFSMetadata"} {
			dec := dec
			res.probe("decoder-bytes")
			panicked, site, pmsg := guard(func() {
				switch dec {
				case "DecodeUnixFSData":
					if ud, err := data.DecodeUnixFSData(p); err == nil && ud != nil {
						// a decoded message must be usable
						_ = data.EncodeUnixFSData(ud)
						_ = ud.Permissions()
						_ = ud.FieldDataType().Int()
						_ = ud.FieldFileSize().Exists()
						_ = ud.FieldBlockSizes().Length()
					}
				case "DecodeUnixTime":
					_, _ = data.DecodeUnixTime(p)
				default:
					_, _ = data.DecodeUnixFSMetadata(p)
				}
			})
			res.Execs++
			if panicked {
				sc.FailedOp = dec
				res.Violation = &Violation{Class: "c13/decoder-panic@" + site, Msg: fmt.Sprintf("%s(%x) panicked: %s", dec, p, pmsg)}
				res.Sig = sig
				return res
			}
		}
	}
	res.Sig = sig
	return res
}

func sortStrings(s []string) {
	for i := 1; i < len(s); i++ {
		for j := i; j > 0 && strings.Compare(s[j-1], s[j]) > 0; j-- {
			s[j-1], s[j] = s[j], s[j-1]
		}
	}
}
