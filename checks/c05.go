package checks

import (
	"bytes"
	"fmt"
	"io"
	"strings"

	"github.com/ipfs/go-cid"
	unixfsnode "github.com/ipfs/go-unixfsnode"
	dagpb "github.com/ipld/go-codec-dagpb"
	"github.com/ipld/go-ipld-prime/datamodel"
	cidlink "github.com/ipld/go-ipld-prime/linking/cid"
	"github.com/ipld/go-ipld-prime/node/basicnode"
	"github.com/ipld/go-ipld-prime/traversal"
	sb "github.com/ipld/go-ipld-prime/traversal/selector/builder"

	"verif/sim/dagmodel"
	"verif/sim/gen"
	"verif/sim/store"
	"verif/sim/tape"
)

// C05 — lazy access fetches only the blocks the request needs.
type c05 struct{}

func init() { register(c05{}) }

func (c05) ID() string    { return "C05" }
func (c05) Level() string { return "exploration" }
func (c05) Technique() string {
	return "deterministic simulation: every storage request of a seeded range read / subset traversal / HAMT lookup / path resolution is monitored at the simulated block store against the block set an independent model allows, and the same operation is re-run on a starved store (every other block made unavailable) where it must still succeed"
}
func (c05) Rule() string {
	return "one evaluation = one operation in one configuration (monitor or starved store; link system with or without NodeReifier) on a seeded DAG; operations: Seek(a)+ReadFull(b-a) on a fresh reader, a 2-5 step Seek+ReadFull history on one reader (each step monitored against its own range), MatcherSubset(a,b) traversal with bytes consumed, lookup by string/segment/node on a lazily reified sharded directory (this builder, boxo incl. insert/remove histories, mixed-fanout), UnixFSPathSelector traversal over a mixed tree incl. paths that name no entry; non-trivial = the DAG has blocks outside the allowed set (there was something to over-fetch); distinct = distinct (operation, range/edge class or path depth, seam event sequence) signature"
}
func (c05) Assumptions() []string {
	return []string{
		"only the upper bound is asserted (requested ⊆ allowed); a zero-length block lying inside [a,b] and, for an empty request, the block holding a are tolerated",
		"where a file node does not record the size of a dag-pb child (no BlockSizes entry for it) a lazy reader has no way to learn where that child's bytes end but to open it: the child's root block - and, if that child records no FileSize either, recursively the blocks needed to measure it - are then allowed in addition (dagmodel.AllowedLazy); raw children are never allowed for measuring (their size is the link's Tsize), and nodes that record all sizes, as every importer writes them, add nothing",
		"obtaining the lazy view of a file (no byte read) may request the root block only",
		"allowed sets are computed by CID, so a repeated chunk counts wherever it occurs",
	}
}
func (c05) RealStub() map[string]string {
	return realStub("starved configuration = persistent not-found fault on every block outside the allowed set")
}
func (c05) Runs(t Tier) int {
	if t == Thorough {
		return 100000
	}
	return 2500
}
func (c05) RecordWidths() map[string]int { return map[string]int{"ops": 3} }
func (c05) RequiredProbes() []string {
	return []string{"range-starts-on-boundary", "range-ends-on-boundary", "range-inside-one-chunk", "range-empty", "range-whole-file", "reader-history", "abandoned-seek", "subset-traversal", "lookup-member", "lookup-nonmember", "hamt-depth>=3", "path-through-hamt", "path-to-multiblock-file", "path-to-missing-entry", "file-beyond-4GiB", "linksystem-with-node-reifier", "starved-ok"}
}

type c05Scenario struct {
	Kind   string   `json:"kind"`
	Spec   string   `json:"spec"`
	Blocks int      `json:"blocks"`
	Ops    []string `json:"ops"`
	Failed string   `json:"failed_op,omitempty"`
}

// monitor installs a read policy that records every request outside allowed
// (monitor mode) or makes such blocks unavailable (starved mode).
func monitor(st *store.Store, allowed map[string]bool, starve bool, outside *[]cid.Cid) {
	st.ReadPolicy = func(_ int, c cid.Cid) *store.ReadFault {
		if allowed[c.KeyString()] {
			return nil
		}
		*outside = append(*outside, c)
		if starve {
			return &store.ReadFault{Kind: store.NotFound}
		}
		return nil
	}
}

func (c c05) Run(ts *tape.Set, tier Tier) *Result {
	shape := ts.T("shape")
	switch shape.Pick(12, 8, 8, 1) {
	case 0:
		return c.runFile(ts, tier)
	case 1:
		return c.runDir(ts, tier)
	case 2:
		return c.runTree(ts, tier)
	default:
		return c.runHuge(ts, tier)
	}
}

// runHuge: a de-duplicated file of several gigabytes (a handful of stored
// blocks): small reads at offsets around 2^31, 2^32, the borders of its
// multi-gigabyte subtrees and its end. Bytes are checked against the sparse
// model and every request against the block set the range needs.
func (c05) runHuge(ts *tape.Set, tier Tier) *Result {
	res := &Result{}
	shape := ts.T("shape")
	seed := shape.Raw()
	st := store.New()
	root := gen.WriteHugeFile(st, seed)
	model, err := dagmodel.BuildFileSparse(st, root)
	if err != nil {
		res.Skipped, res.SkipReason = true, "model: "+err.Error()
		return res
	}
	L := model.Len
	sc := &c05Scenario{Kind: "huge file", Spec: fmt.Sprintf("de-duplicated file of %d bytes in %d stored blocks (%d block occurrences)", L, len(model.BlockSet()), len(model.Spans)), Blocks: len(model.BlockSet())}
	res.Scenario = sc
	res.probe("file-beyond-4GiB")
	res.NonTrivial = true
	// interesting offsets: powers of two, borders of the depth-1 subtrees, end
	var marks []int64
	for _, m := range []int64{0, 1 << 31, 1 << 32, 1<<32 + 1<<31, L} {
		if m <= L {
			marks = append(marks, m)
		}
	}
	for _, s := range model.Spans {
		if s.Depth == 1 {
			marks = append(marks, s.Start, s.End)
		}
	}
	ops := ts.T("ops")
	nOps := 2 + shape.Intn(5)
	var sig uint64
	st.ResetLog()
	w := newWorld(st, false, shape.Intn(3) == 2)
	var opErr string
	var failClass, failMsg string
	panicked, site, pmsg := guard(func() {
		n, _, err := openFile(w, root, 1)
		if err != nil {
			opErr = err.Error()
			return
		}
		rs, err := n.(datamodel.LargeBytesNode).AsLargeBytes()
		if err != nil {
			opErr = err.Error()
			return
		}
		pos := int64(0)
		for i := 0; i < nOps; i++ {
			m := marks[ops.Intn(len(marks))]
			a := m + int64(ops.Intn(9)) - 4
			k := int64(1 + ops.Intn(3000))
			if a < 0 {
				a = 0
			}
			if a > L {
				a = L
			}
			b := a + k
			if b > L {
				b = L
			}
			whence := ops.Intn(3)
			allowed := model.Allowed(a, b)
			var outside []cid.Cid
			// a library gone wrong on a file of gigabytes can read gigabytes:
			// requests outside the allowed set are refused (the step then fails
			// and is reported as over-fetching), and so is everything beyond a
			// generous number of requests for a read of a few kilobytes
			requests := 0
			overBudget := false
			st.ReadPolicy = func(_ int, c cid.Cid) *store.ReadFault {
				requests++
				if requests > 4000 {
					overBudget = true
					return &store.ReadFault{Kind: store.EIOOpen}
				}
				if !allowed[c.KeyString()] {
					outside = append(outside, c)
					return &store.ReadFault{Kind: store.NotFound}
				}
				return nil
			}
			check := func() bool {
				if overBudget {
					failClass, failMsg = "c05/huge/unbounded-loads", fmt.Sprintf("step %d: reading [%d,%d) of a %d byte de-duplicated file issued more than 4000 block requests", i, a, b, L)
					return true
				}
				if len(outside) > 0 {
					failClass, failMsg = "c05/huge/over-fetch", fmt.Sprintf("step %d: reading [%d,%d) of a %d byte de-duplicated file requested %d block(s) outside the %d the range needs (first: %s)", i, a, b, L, len(outside), len(allowed), shortCid(outside[0]))
					return true
				}
				return false
			}
			var off int64
			var wh int
			switch whence {
			case 0:
				wh, off = io.SeekStart, a
			case 1:
				wh, off = io.SeekCurrent, a-pos
			default:
				wh, off = io.SeekEnd, a-L
			}
			sc.Ops = append(sc.Ops, fmt.Sprintf("%s to %d, readfull %d", []string{"SeekStart", "SeekCurrent", "SeekEnd"}[whence], a, b-a))
			got, err := rs.Seek(off, wh)
			if check() {
				return
			}
			if err != nil || got != a {
				failClass, failMsg = "c05/huge/seek", fmt.Sprintf("step %d: Seek to %d returned (%d, %v)", i, a, got, err)
				return
			}
			buf := make([]byte, b-a)
			_, rerr := io.ReadFull(rs, buf)
			if check() {
				return
			}
			if err := rerr; err != nil {
				failClass, failMsg = "c05/huge/read", fmt.Sprintf("step %d: ReadFull(%d) at %d of %d: %v", i, b-a, a, L, err)
				return
			}
			pos = b
			if !bytes.Equal(buf, model.ReadAt(a, b)) {
				failClass, failMsg = "c05/huge/wrong-bytes", fmt.Sprintf("step %d: bytes [%d,%d) of a %d byte file differ from the content", i, a, b, L)
				return
			}
			sig = fnvMix(sig, uint64(whence), uint64(len(allowed)))
		}
	})
	res.Execs++
	res.Events += len(st.Log)
	res.Sig = sigOfLog(sig, st.Log)
	if panicked {
		res.Violation = &Violation{Class: "c05/huge/panic@" + site, Msg: "panic: " + pmsg}
		return res
	}
	if opErr != "" {
		res.Skipped, res.SkipReason = true, "cannot open: "+opErr
		return res
	}
	if failClass != "" {
		// wrong bytes / failing seeks at large offsets are C04's subject in
		// principle, but C04's model holds content in memory and never gets
		// here: they are reported by this mode
		res.Violation = &Violation{Class: failClass, Msg: failMsg}
		res.Excerpt = excerpt(st.Log, 12)
	}
	return res
}

func (c05) runFile(ts *tape.Set, tier Tier) *Result {
	res := &Result{}
	shape := ts.T("shape")
	maxSize := 12 << 10
	if tier == Thorough {
		maxSize = 48 << 10
	}
	spec := gen.DrawFileSpec(shape, gen.FileOpts{MaxSize: maxSize, AllowOdd: true, AllowNoSizes: true, MultiBlock: true})
	fragMode := shape.Pick(2, 1, 1, 1)
	fragSeed := shape.Raw()
	nOps := 1 + shape.Intn(10)
	nodeReifier := shape.Intn(3) == 2
	if nodeReifier {
		res.probe("linksystem-with-node-reifier")
	}
	st := store.New()
	root, _, err := gen.WriteFile(st, spec)
	if err != nil {
		res.Skipped, res.SkipReason = true, err.Error()
		return res
	}
	model, err := dagmodel.BuildFile(st, root)
	if err != nil {
		res.Skipped, res.SkipReason = true, "model: "+err.Error()
		return res
	}
	content := model.Content
	L := int64(len(content))
	bounds := model.Boundaries()
	sc := &c05Scenario{Kind: "file", Spec: spec.String(), Blocks: len(model.Spans)}
	res.Scenario = sc
	if spec.Writer == "odd-noblocksizes" || spec.Writer == "odd-partial-meta" {
		res.probe("file-with-partial-size-records")
	}
	// ---- obtaining the lazy view reads nothing: resolving a path TO a file
	// fetches the blocks on the path, and the file's root is the last of them
	{
		st.ResetLog()
		st.ReadPolicy = nil
		w := newWorld(st, false, nodeReifier)
		var oerr error
		panicked, site, pmsg := guard(func() { _, _, oerr = openFile(w, root, 1) })
		res.Execs++
		if panicked {
			res.Violation = &Violation{Class: "c05/file/panic@" + site, Msg: "opening the lazy view panicked: " + pmsg}
			return res
		}
		if oerr == nil {
			for _, c := range st.ReadCids {
				if !c.Equals(root) {
					res.Violation = &Violation{Class: "c05/file/fetch-on-open", Msg: fmt.Sprintf("obtaining the lazy view of the file (no byte read yet) requested block %s besides the root (%d requests)", shortCid(c), len(st.ReadCids))}
					res.Excerpt = excerpt(st.Log, 12)
					return res
				}
			}
		}
	}
	ops := ts.T("ops")
	var sig uint64
	pickEdgeH := func(r uint64) int64 {
		switch r % 6 {
		case 0, 1:
			return bounds[int((r>>8)%uint64(len(bounds)))]
		case 2:
			return bounds[int((r>>8)%uint64(len(bounds)))] + int64((r>>40)%3) - 1
		case 3:
			return 0
		case 4:
			return L
		default:
			return int64((r >> 8) % uint64(L+1))
		}
	}
	if shape.Intn(3) == 0 {
		// ---- one reader, several requests in a row: each request on its own
		// must stay within the blocks its range needs, whatever the reader
		// did before (a history, not a single call)
		type step struct {
			a, b   int64
			whence int
			decoy  int64 // >= 0: an abandoned Seek to this offset comes first
		}
		var steps []step
		union := map[string]bool{}
		for i := 0; i < 2+nOps%4; i++ {
			w := ops.Intn(3)
			a, b := pickEdgeH(ops.Raw()), pickEdgeH(ops.Raw())
			if a < 0 {
				a = 0
			}
			if b < 0 {
				b = 0
			}
			if a > L {
				a = L
			}
			if b > L {
				b = L
			}
			if a > b {
				a, b = b, a
			}
			// keep requests short so that there is something not to fetch
			if b-a > 600 {
				b = a + 1 + (b-a)%600
			}
			decoy := int64(-1)
			if dr := ops.Raw(); dr%3 == 0 {
				decoy = pickEdgeH(dr >> 8)
				if decoy < 0 {
					decoy = 0
				}
				if decoy > L {
					decoy = L
				}
				res.probe("abandoned-seek")
			}
			steps = append(steps, step{a, b, w, decoy})
			for k := range model.AllowedLazy(a, b) {
				union[k] = true
			}
			sc.Ops = append(sc.Ops, fmt.Sprintf("history step %d: %s to %d, readfull %d", i, []string{"SeekStart", "SeekCurrent", "SeekEnd"}[w], a, b-a))
		}
		res.probe("reader-history")
		if len(union) < len(model.BlockSet()) {
			res.NonTrivial = true
		}
		for _, starve := range []bool{false, true} {
			st.ResetLog()
			st.ReadPolicy = nil
			st.Frag = fragFn(fragSeed, fragMode)
			w := newWorld(st, false, nodeReifier)
			var outside []cid.Cid
			var failMsg, failClass string
			panicked, site, pmsg := guard(func() {
				n, _, err := openFile(w, root, 1)
				if err != nil {
					failClass, failMsg = "skip", "open: "+err.Error()
					return
				}
				rs, err := n.(datamodel.LargeBytesNode).AsLargeBytes()
				if err != nil {
					failClass, failMsg = "skip", err.Error()
					return
				}
				pos := int64(0)
				for i, stp := range steps {
					allowed := union
					if !starve {
						allowed = model.AllowedLazy(stp.a, stp.b)
					}
					outside = nil
					monitor(st, allowed, starve, &outside)
					var off int64
					var whence int
					switch stp.whence {
					case 0:
						whence, off = io.SeekStart, stp.a
					case 1:
						whence, off = io.SeekCurrent, stp.a-pos
					default:
						whence, off = io.SeekEnd, stp.a-L
					}
					if stp.decoy >= 0 {
						// the client first seeks somewhere else and changes its mind
						// before reading: a position that is never read from needs no block
						if _, err := rs.Seek(stp.decoy, io.SeekStart); err != nil {
							failClass, failMsg = "err", fmt.Sprintf("step %d: decoy seek: %v", i, err)
							return
						}
						if whence == io.SeekCurrent {
							off = stp.a - stp.decoy
						}
					}
					if _, err := rs.Seek(off, whence); err != nil {
						failClass, failMsg = "err", fmt.Sprintf("step %d: seek: %v", i, err)
						return
					}
					got := make([]byte, stp.b-stp.a)
					if _, err := io.ReadFull(rs, got); err != nil {
						failClass, failMsg = "err", fmt.Sprintf("step %d: readfull: %v", i, err)
						return
					}
					pos = stp.b
					if !starve && len(outside) > 0 {
						failClass = "over-fetch"
						failMsg = fmt.Sprintf("step %d of a reader history (%s to %d then ReadFull(%d)) requested %d block(s) outside the %d its range needs (first: %s, span %s)", i, []string{"SeekStart", "SeekCurrent", "SeekEnd"}[stp.whence], stp.a, stp.b-stp.a, len(outside), len(allowed), shortCid(outside[0]), spanOf(model, outside[0]))
						return
					}
					if !bytes.Equal(got, content[stp.a:stp.b]) {
						failClass, failMsg = "bytes", fmt.Sprintf("step %d: returned bytes differ from content[%d:%d]", i, stp.a, stp.b)
						return
					}
				}
			})
			res.Execs++
			res.Events += len(st.Log)
			sig = sigOfLog(fnvMix(sig, 21, boolU(starve), uint64(len(steps))), st.Log)
			if panicked {
				res.Violation = &Violation{Class: "c05/file/panic@" + site, Msg: "reader history panicked: " + pmsg}
				break
			}
			switch failClass {
			case "":
				if starve {
					res.probe("starved-ok")
				}
			case "over-fetch":
				res.Violation = &Violation{Class: "c05/file/over-fetch-in-history", Msg: failMsg}
				res.Excerpt = excerpt(st.Log, 12)
			case "skip":
				res.Skipped, res.SkipReason = true, failMsg
				return res
			default:
				if starve {
					res.Violation = &Violation{Class: "c05/file/needs-unrelated-block", Msg: "starved store (union of the ranges' blocks available): " + failMsg}
					res.Excerpt = excerpt(st.Log, 12)
				} else {
					res.Skipped, res.SkipReason = true, "fault-free history failed (C04's subject): "+failMsg
					return res
				}
			}
			if res.Violation != nil {
				break
			}
		}
		res.Sig = sig
		return res
	}
	for i := 0; i < nOps && res.Violation == nil; i++ {
		mode := ops.Pick(3, 2)
		ra, rb := ops.Raw(), ops.Raw()
		pickEdge := func(r uint64) int64 {
			switch r % 6 {
			case 0, 1:
				return bounds[int((r>>8)%uint64(len(bounds)))]
			case 2:
				return bounds[int((r>>8)%uint64(len(bounds)))] + int64((r>>40)%3) - 1
			case 3:
				return 0
			case 4:
				return L
			default:
				return int64((r >> 8) % uint64(L+1))
			}
		}
		a, b := pickEdge(ra), pickEdge(rb)
		if a < 0 {
			a = 0
		}
		if b < 0 {
			b = 0
		}
		if a > L {
			a = L
		}
		if b > L {
			b = L
		}
		if a > b {
			a, b = b, a
		}
		if mode == 1 && a == b {
			// the subset matcher needs a non-empty range to be meaningful
			if b < L {
				b++
			} else if a > 0 {
				a--
			}
		}
		allowed := model.AllowedLazy(a, b)
		opName := fmt.Sprintf("%s[%d,%d)", []string{"seek+readfull", "subset-walk"}[mode], a, b)
		sc.Ops = append(sc.Ops, opName)
		if isBoundary(bounds, a) && a > 0 {
			res.probe("range-starts-on-boundary")
		}
		if isBoundary(bounds, b) && b < L {
			res.probe("range-ends-on-boundary")
		}
		if a == b {
			res.probe("range-empty")
		}
		if a == 0 && b == L {
			res.probe("range-whole-file")
		}
		if len(allowed) <= model.MaxDepth+1 && b > a {
			res.probe("range-inside-one-chunk")
		}
		if mode == 1 {
			res.probe("subset-traversal")
		}
		if len(allowed) < len(model.BlockSet()) {
			res.NonTrivial = true
		}
		for _, starve := range []bool{false, true} {
			st.ResetLog()
			st.ReadPolicy = nil
			st.Frag = fragFn(fragSeed+uint64(i), fragMode)
			w := newWorld(st, false, nodeReifier)
			var outside []cid.Cid
			var got []byte
			var opErr error
			panicked, site, pmsg := guard(func() {
				n, _, err := openFile(w, root, 1)
				if err != nil {
					opErr = fmt.Errorf("open: %w", err)
					return
				}
				monitor(st, allowed, starve, &outside)
				if mode == 0 {
					rs, err := n.(datamodel.LargeBytesNode).AsLargeBytes()
					if err != nil {
						opErr = err
						return
					}
					if _, err := rs.Seek(a, io.SeekStart); err != nil {
						opErr = fmt.Errorf("seek: %w", err)
						return
					}
					got = make([]byte, b-a)
					_, opErr = io.ReadFull(rs, got)
					return
				}
				ssb := sb.NewSelectorSpecBuilder(basicnode.Prototype.Any)
				sel := ssb.MatcherSubset(a, b).Node()
				matched := 0
				opErr = walkMatching(w, n, sel, func(_ traversal.Progress, m datamodel.Node) error {
					matched++
					bs, err := m.AsBytes()
					got = bs
					return err
				})
				if opErr == nil && matched != 1 {
					opErr = fmt.Errorf("subset selector matched %d nodes", matched)
				}
			})
			res.Execs++
			res.Events += len(st.Log)
			sig = sigOfLog(fnvMix(sig, uint64(mode), boolU(starve), boolU(a == b), boolU(isBoundary(bounds, a)), boolU(isBoundary(bounds, b))), st.Log)
			fail := func(class, format string, args ...any) {
				if res.Violation == nil {
					sc.Failed = opName
					res.Violation = &Violation{Class: class, Msg: opName + ": " + fmt.Sprintf(format, args...)}
					res.Excerpt = excerpt(st.Log, 12)
				}
			}
			cfg := map[bool]string{false: "monitor", true: "starved"}[starve]
			if panicked {
				fail("c05/file/panic@"+site, "panic: %s", pmsg)
				break
			}
			if !starve && len(outside) > 0 {
				fail("c05/file/over-fetch", "requested %d block(s) outside the allowed set of %d (first: %s, span %s); file has %d blocks", len(outside), len(allowed), shortCid(outside[0]), spanOf(model, outside[0]), len(model.BlockSet()))
				break
			}
			if opErr != nil {
				if starve {
					fail("c05/file/needs-unrelated-block", "%s store (only the %d allowed blocks available): operation failed: %v", cfg, len(allowed), opErr)
				} else {
					// a plain functional failure is C01/C04's subject; do not judge here
					res.Skipped, res.SkipReason = true, "fault-free operation failed: "+opErr.Error()
					return res
				}
				break
			}
			if !bytes.Equal(got, content[a:b]) {
				if starve {
					fail("c05/file/wrong-bytes-when-starved", "%s store: returned bytes differ from content[%d:%d]", cfg, a, b)
				} else {
					res.Skipped, res.SkipReason = true, "fault-free operation returned wrong bytes (C01/C04's subject)"
					return res
				}
				break
			}
			if starve {
				res.probe("starved-ok")
			}
		}
	}
	res.Sig = sig
	return res
}

// blocksOnPathDirs returns the directories (root included) a path selector
// with path matching visits before the first segment that names no entry.
func blocksOnPathDirs(g dagmodel.Getter, root cid.Cid, segs []string) []cid.Cid {
	var out []cid.Cid
	for i := 0; i <= len(segs); i++ {
		_, tgt, err := dagmodel.PathBlocks(g, root, segs[:i])
		if err != nil || !tgt.Defined() {
			break
		}
		out = append(out, tgt)
	}
	return out
}

func spanOf(m *dagmodel.File, c cid.Cid) string {
	var ss []string
	for _, s := range m.Spans {
		if s.Cid.Equals(c) {
			ss = append(ss, fmt.Sprintf("[%d,%d)", s.Start, s.End))
			if len(ss) >= 3 {
				break
			}
		}
	}
	return strings.Join(ss, ",")
}

func (c05) runDir(ts *tape.Set, tier Tier) *Result {
	res := &Result{}
	shape := ts.T("shape")
	maxN := 300
	if tier == Thorough {
		maxN = 1500
	}
	spec := gen.DrawDirSpec(shape, gen.DirOpts{MaxN: maxN})
	nOps := 1 + shape.Intn(12)
	nodeReifier := shape.Intn(3) == 2
	st := store.New()
	root, entries, err := gen.WriteShardedDir(st, spec)
	if err != nil {
		res.Skipped, res.SkipReason = true, err.Error()
		return res
	}
	model, err := dagmodel.BuildDir(st, root)
	if err != nil {
		res.Skipped, res.SkipReason = true, "model: "+err.Error()
		return res
	}
	if len(model.Entries) != len(entries) {
		res.Skipped, res.SkipReason = true, "stored directory does not hold the entries given to the writer (C02/C08's subject)"
		return res
	}
	sc := &c05Scenario{Kind: "dir", Spec: spec.String(), Blocks: len(model.Shards)}
	res.Scenario = sc
	if model.MaxDepth >= 2 {
		res.probe("hamt-depth>=3")
	}
	ops := ts.T("ops")
	var sig uint64
	for i := 0; i < nOps && res.Violation == nil; i++ {
		member := ops.Pick(3, 2) == 0
		r1, _ := ops.Raw(), ops.Raw()
		var name string
		if member {
			name = model.Order[int(r1%uint64(len(model.Order)))].Name
			res.probe("lookup-member")
		} else {
			switch r1 % 4 {
			case 0:
				name = fmt.Sprintf("absent-%d", r1>>8)
			case 1:
				name = model.Order[int((r1>>8)%uint64(len(model.Order)))].Name + "x"
			case 2:
				name = ""
			default:
				n := model.Order[int((r1>>8)%uint64(len(model.Order)))].Name
				name = n[:len(n)-1]
			}
			if _, ok := model.Entries[name]; ok {
				member = true
			} else {
				res.probe("lookup-nonmember")
			}
		}
		want := model.Lookup(name)
		allowed := map[string]bool{root.KeyString(): true}
		for _, s := range want.Shards {
			allowed[s.KeyString()] = true
		}
		opName := fmt.Sprintf("lookup(%q) depth=%d", name, len(want.Shards))
		sc.Ops = append(sc.Ops, opName)
		if len(allowed) < len(model.Shards) {
			res.NonTrivial = true
		}
		for _, starve := range []bool{false, true} {
			st.ResetLog()
			st.ReadPolicy = nil
			w := newWorld(st, false, nodeReifier)
			var outside []cid.Cid
			var got datamodel.Node
			var lerr, openErr error
			panicked, site, pmsg := guard(func() {
				n, err := w.Reify(root)
				if err != nil {
					openErr = err
					return
				}
				monitor(st, allowed, starve, &outside)
				switch i % 4 {
				case 0:
					got, lerr = n.LookupByString(name)
				case 1:
					got, lerr = n.LookupBySegment(segmentFor(name))
				case 3:
					// the key as a directory iterator hands it out
					nb := dagpb.Type.String.NewBuilder()
					_ = nb.AssignString(name)
					got, lerr = n.LookupByNode(nb.Build())
				default:
					got, lerr = n.LookupByNode(basicnode.NewString(name))
				}
			})
			res.Execs++
			res.Events += len(st.Log)
			sig = sigOfLog(fnvMix(sig, 11, boolU(starve), boolU(member), uint64(len(want.Shards))), st.Log)
			fail := func(class, format string, args ...any) {
				if res.Violation == nil {
					sc.Failed = opName
					res.Violation = &Violation{Class: class, Msg: opName + ": " + fmt.Sprintf(format, args...)}
					res.Excerpt = excerpt(st.Log, 12)
				}
			}
			if panicked {
				fail("c05/dir/panic@"+site, "panic: %s", pmsg)
				break
			}
			if openErr != nil {
				res.Skipped, res.SkipReason = true, "reify failed: "+openErr.Error()
				return res
			}
			if !starve && len(outside) > 0 {
				fail("c05/dir/over-fetch", "requested %d block(s) off the hash path (first: %s); path has %d shard(s), directory has %d", len(outside), shortCid(outside[0]), len(want.Shards), len(model.Shards))
				break
			}
			ok := false
			switch {
			case want.Found:
				if lerr == nil {
					if l, err := got.AsLink(); err == nil && l.(cidlink.Link).Cid.Equals(want.Link) {
						ok = true
					}
				}
			default:
				ok = isNotFoundResult(lerr)
			}
			if !ok {
				if starve {
					fail("c05/dir/needs-unrelated-block", "starved store (only the %d shards on the hash path available): lookup returned (%v, %v), model says found=%v", len(allowed), got, lerr, want.Found)
				} else {
					res.Skipped, res.SkipReason = true, "fault-free lookup disagrees with the model (C02's subject)"
					return res
				}
				break
			}
			if starve {
				res.probe("starved-ok")
			}
		}
	}
	res.Sig = sig
	return res
}

func (c05) runTree(ts *tape.Set, tier Tier) *Result {
	res := &Result{}
	shape := ts.T("shape")
	nOps := 1 + shape.Intn(6)
	nodeReifier := shape.Intn(3) == 2
	st := store.New()
	tree, err := gen.WriteTree(st, ts.T("tree"), gen.TreeOpts{MaxDepth: 3, MaxFileSize: 1500})
	if err != nil {
		res.Skipped, res.SkipReason = true, err.Error()
		return res
	}
	paths, nodes := gen.Paths(tree)
	sc := &c05Scenario{Kind: "tree", Spec: fmt.Sprintf("root=%s nodes=%d", tree.Kind, len(paths)+1), Blocks: st.Len()}
	res.Scenario = sc
	if len(paths) == 0 {
		res.Skipped, res.SkipReason = true, "empty tree"
		return res
	}
	ops := ts.T("ops")
	var sig uint64
	for i := 0; i < nOps && res.Violation == nil; i++ {
		pi := ops.Intn(len(paths))
		style := ops.Intn(4)
		mraw := ops.Intn(8)
		missing := mraw%4 == 3
		// (the matchPath=true variant of UnixFSPathSelectorBuilder is not used:
		// on the unchanged tree it matches only the root, because go-ipld-prime
		// does not apply an InterpretAs clause nested directly in a union - that
		// is C03's subject, which is not claimed; see DESIGN.md 9.6)
		matchPath := false
		_ = mraw
		segs := paths[pi]
		target := nodes[pi]
		if missing {
			// a path that names no entry: resolution stops at the parent and must
			// not have fetched anything beyond the way there
			segs = append(append([]string(nil), segs[:len(segs)-1]...), segs[len(segs)-1]+"~missing")
		}
		pathStr := strings.Join(segs, "/")
		switch style {
		case 1:
			pathStr = "/" + pathStr
		case 2:
			pathStr = pathStr + "/"
		case 3:
			pathStr = strings.Join(segs, "//")
		}
		blocks, tgt, err := dagmodel.PathBlocks(st, tree.Cid, segs)
		if missing && err == nil && !tgt.Defined() {
			res.probe("path-to-missing-entry")
		} else if err != nil || !tgt.Defined() || !tgt.Equals(target.Cid) {
			res.Skipped, res.SkipReason = true, fmt.Sprintf("model cannot resolve %q: %v", pathStr, err)
			return res
		}
		allowed := map[string]bool{}
		for _, b := range blocks {
			allowed[b.KeyString()] = true
		}
		opName := fmt.Sprintf("path(%q)->%s", pathStr, target.Kind)
		sc.Ops = append(sc.Ops, opName)
		throughHamt := false
		cur := tree
		for _, s := range segs {
			if cur.Kind == "hamt" {
				throughHamt = true
			}
			for _, ch := range cur.Children {
				if ch.Name == s {
					cur = ch
					break
				}
			}
		}
		if throughHamt {
			res.probe("path-through-hamt")
		}
		if target.Kind == "file" && len(target.Content) > 0 {
			if fm, err := dagmodel.BuildFile(st, target.Cid); err == nil && len(fm.Spans) > 1 {
				res.probe("path-to-multiblock-file")
			}
		}
		if len(allowed) < st.Len() {
			res.NonTrivial = true
		}
		for _, starve := range []bool{false, true} {
			st.ResetLog()
			st.ReadPolicy = nil
			w := newWorld(st, false, nodeReifier)
			var outside []cid.Cid
			var walkErr error
			matched := 0
			var matchedKind datamodel.Kind
			panicked, site, pmsg := guard(func() {
				rn, err := w.LoadRoot(tree.Cid)
				if err != nil {
					walkErr = err
					return
				}
				monitor(st, allowed, starve, &outside)
				sel := unixfsnode.UnixFSPathSelector(pathStr)
				if matchPath {
					sel = unixfsnode.UnixFSPathSelectorBuilder(pathStr, unixfsnode.MatchUnixFSSelector, true)
				}
				walkErr = walkMatching(w, rn, sel, func(_ traversal.Progress, n datamodel.Node) error {
					matched++
					matchedKind = n.Kind()
					return nil
				})
			})
			res.Execs++
			res.Events += len(st.Log)
			sig = sigOfLog(fnvMix(sig, 13, boolU(starve), uint64(len(segs)), boolU(throughHamt), tape.HashString(target.Kind)), st.Log)
			fail := func(class, format string, args ...any) {
				if res.Violation == nil {
					sc.Failed = opName
					res.Violation = &Violation{Class: class, Msg: opName + ": " + fmt.Sprintf(format, args...)}
					res.Excerpt = excerpt(st.Log, 12)
				}
			}
			if panicked {
				fail("c05/path/panic@"+site, "panic: %s", pmsg)
				break
			}
			if !starve && len(outside) > 0 {
				fail("c05/path/over-fetch", "resolution requested %d block(s) off the path (first: %s); the path needs %d of %d stored blocks", len(outside), shortCid(outside[0]), len(allowed), st.Len())
				break
			}
			wantKind := datamodel.Kind_Map
			if target.Kind == "file" {
				wantKind = datamodel.Kind_Bytes
			}
			if missing {
				wantM := 0
				if matchPath {
					// every node along the path up to the parent of the missing entry
					wantM = len(blocksOnPathDirs(st, tree.Cid, segs))
				}
				if walkErr != nil || matched != wantM {
					if starve {
						fail("c05/path/needs-unrelated-block", "starved store: a path naming no entry gave err=%v matched=%d", walkErr, matched)
					} else {
						res.Skipped, res.SkipReason = true, fmt.Sprintf("fault-free traversal of a missing path disagrees with the model (C03's subject): err=%v matched=%d", walkErr, matched)
						return res
					}
					break
				}
				if starve {
					res.probe("starved-ok")
				}
				continue
			}
			wantMatches := 1
			if matchPath {
				wantMatches = 1 + len(segs)
				res.probe("path-with-matchpath")
			}
			if walkErr != nil || matched != wantMatches || matchedKind != wantKind {
				if starve {
					fail("c05/path/needs-unrelated-block", "starved store (only the %d blocks on the path available): err=%v matched=%d kind=%v", len(allowed), walkErr, matched, matchedKind)
				} else {
					res.Skipped, res.SkipReason = true, fmt.Sprintf("fault-free path traversal disagrees with the model (C03's subject): err=%v matched=%d", walkErr, matched)
					return res
				}
				break
			}
			if starve {
				res.probe("starved-ok")
			}
		}
	}
	res.Sig = sig
	return res
}
