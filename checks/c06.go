package checks

import (
	"context"
	"fmt"
	"strings"

	"github.com/ipfs/go-cid"
	unixfsnode "github.com/ipfs/go-unixfsnode"
	"github.com/ipfs/go-unixfsnode/file"
	"github.com/ipld/go-ipld-prime/datamodel"
	"github.com/ipld/go-ipld-prime/linking"
	"github.com/ipld/go-ipld-prime/traversal"
	sb "github.com/ipld/go-ipld-prime/traversal/selector/builder"

	"verif/sim/dagmodel"
	"verif/sim/gen"
	"verif/sim/store"
	"verif/sim/tape"
)

// C06 — preload / entity access fetches the whole entity, nothing beyond, or fails.
type c06 struct{}

func init() { register(c06{}) }

func (c06) ID() string    { return "C06" }
func (c06) Level() string { return "fault_enumeration" }
func (c06) Technique() string {
	return "deterministic simulation with storage fault injection: fault-free run compares the set of blocks requested at the simulated store with the entity's block set from an independent model; then an exhaustive single-block fault sweep (not-found, I/O error at open, I/O error mid-stream) over every block of the entity, k-th-load-fails for every k, and seeded 2-3 block subsets must each end in an error"
}
func (c06) Rule() string {
	return "one evaluation = one execution of one access path (unixfs-preload reifier on the loaded root; WalkMatching with MatchUnixFSPreloadSelector; WalkMatching with MatchUnixFSEntitySelector + BytesConsumingMatcher; for files also file.NewUnixFSFileWithPreload called directly on what the link system loaded; each optionally reached through UnixFSPathSelectorBuilder from a parent directory; link system with or without NodeReifier) on a file, sharded or plain directory under one fault plan; per seeded entity the plan space {every entity block} x {3 kinds} + {the same with well-known error values} + {k-th load once, strided above ~3M loads} + {store goes away at load k} + block subsets + {access twice on one root object with a block removed in between} is enumerated; non-trivial = entity has >= 2 blocks and (fault-free) there are non-entity blocks reachable from it, or (faulted) the fault fired; distinct = distinct (access path, fault kind, outcome, seam event sequence) signature"
}
func (c06) Assumptions() []string {
	return []string{
		"entity of a file = all blocks of the file DAG; entity of a sharded directory = all shard blocks and none of the entries' blocks (model parsed independently from stored bytes)",
		"a node returned together with a non-nil error is accepted (the statement forbids a silent partial result)",
		"the root block of the entity itself is loaded by the caller before reification; when it is the faulted block the load fails before the library is entered",
	}
}
func (c06) RealStub() map[string]string {
	return realStub("each execution uses a fresh world (cold caches) over the same durable blocks")
}
func (c06) Runs(t Tier) int {
	if t == Thorough {
		return 20000
	}
	return 700
}
func (c06) RecordWidths() map[string]int { return nil }
func (c06) RequiredProbes() []string {
	return []string{"file-entity", "dir-entity", "plain-dir-entity", "linksystem-with-node-reifier", "repeat-access-on-same-root-object", "lazy-use-before-preload", "derived-link-system", "via-path-selector", "preload-reifier", "preload-selector", "entity-selector", "fault-on-last-block", "fault-on-interior", "kth-load", "subset-fault", "entries-have-blocks"}
}

// repeatMarker in faultPlan.after selects the "access twice on one root
// object" history (the value is never used as a byte offset by a not-found plan).
const repeatMarker = -7

type c06Scenario struct {
	Kind   string `json:"kind"`
	Spec   string `json:"spec"`
	Access string `json:"access"`
	Blocks int    `json:"entity_blocks"`
	Plans  int    `json:"fault_plans"`
	Failed string `json:"failed_plan,omitempty"`
}

func (c06) Run(ts *tape.Set, tier Tier) *Result {
	res := &Result{}
	shape := ts.T("shape")
	kindPick := shape.Pick(4, 4, 1)
	isDir := kindPick == 1
	isPlainDir := kindPick == 2
	access := shape.Intn(4) // 0 preload reifier, 1 preload selector, 2 entity selector, 3 (files) the preloading constructor called directly
	if access == 3 && kindPick != 0 {
		access = 0
	}
	viaPath := shape.Intn(3) == 2
	if access == 0 || access == 3 {
		viaPath = false
	}
	planSeed := shape.Raw()
	nodeReifier := planSeed%3 == 0 // LinkSystem.NodeReifier = Reify: loads hand out lazily reified nodes
	if nodeReifier {
		res.probe("linksystem-with-node-reifier")
	}
	// what matters below is whether the link system in fact hands out reified
	// nodes, not whether this run asked for it (a helper may install a reifier)
	derivedLS := !nodeReifier && planSeed%5 == 2
	if derivedLS {
		res.probe("derived-link-system")
	}
	lsReifies := newWorld(store.New(), false, nodeReifier).LS.NodeReifier != nil
	lazyFirst := access == 0 && planSeed%7 == 1
	if lazyFirst {
		res.probe("lazy-view-handed-to-preload-reifier")
	}

	st := store.New()
	var entity cid.Cid
	var want map[string]bool // entity block set
	var order []cid.Cid
	var interior map[string]bool
	sc := &c06Scenario{}
	res.Scenario = sc
	if isPlainDir {
		// a basic directory is a single block: the entity is that block and
		// none of its entries' blocks (each entry is a small multi-block file)
		n := 1 + shape.Intn(12)
		ents := map[string]cid.Cid{}
		sizes := map[string]uint64{}
		for i := 0; i < n; i++ {
			fs := gen.DrawFileSpec(shape, gen.FileOpts{MaxSize: 300})
			fc, _, err := gen.WriteFile(st, fs)
			if err != nil {
				res.Skipped, res.SkipReason = true, err.Error()
				return res
			}
			nm := fmt.Sprintf("entry %d", i)
			ents[nm], sizes[nm] = fc, 1
		}
		root := gen.WritePlainDir(st, ents, sizes, shape.Intn(2) == 0)
		entity, want, order = root, map[string]bool{root.KeyString(): true}, []cid.Cid{root}
		interior = map[string]bool{}
		sc.Kind, sc.Spec = "plain-dir", fmt.Sprintf("entries=%d (each a file DAG)", n)
		res.probe("plain-dir-entity")
		res.probe("entries-have-blocks")
		res.NonTrivial = true
	} else if isDir {
		maxN := 120
		if tier == Thorough {
			maxN = 500
		}
		spec := gen.DrawDirSpec(shape, gen.DirOpts{MaxN: maxN})
		root, entries, err := gen.WriteShardedDir(st, spec)
		if err != nil {
			res.Skipped, res.SkipReason = true, err.Error()
			return res
		}
		m, err := dagmodel.BuildDir(st, root)
		if err != nil {
			res.Skipped, res.SkipReason = true, "model: "+err.Error()
			return res
		}
		if len(m.Entries) != len(entries) {
			res.Skipped, res.SkipReason = true, "stored directory does not hold the entries given to the writer"
			return res
		}
		entity, want, order = root, m.ShardSet(), m.ShardDFS()
		interior = map[string]bool{}
		for _, s := range m.Shards {
			if s.Depth > 0 {
				for _, l := range s.Links {
					if l.IsShard {
						interior[s.Cid.KeyString()] = true
					}
				}
			}
		}
		sc.Kind, sc.Spec = "dir", spec.String()
		res.probe("dir-entity")
		res.probe("entries-have-blocks")
	} else {
		spec := gen.DrawFileSpec(shape, gen.FileOpts{MaxSize: 6 << 10, AllowOdd: true, AllowNoSizes: true})
		root, _, err := gen.WriteFile(st, spec)
		if err != nil {
			res.Skipped, res.SkipReason = true, err.Error()
			return res
		}
		m, err := dagmodel.BuildFile(st, root)
		if err != nil {
			res.Skipped, res.SkipReason = true, "model: "+err.Error()
			return res
		}
		entity, want, order = root, m.BlockSet(), m.DFSFirst()
		interior = map[string]bool{}
		for i, s := range m.Spans {
			if i > 0 && !s.Leaf {
				interior[s.Cid.KeyString()] = true
			}
		}
		sc.Kind, sc.Spec = "file", spec.String()
		res.probe("file-entity")
	}
	if len(order) > 300 {
		res.Skipped, res.SkipReason = true, "entity larger than the sweep bound"
		return res
	}
	sc.Blocks = len(order)

	// optional parent directory so that the entity is reached through a path selector
	start := entity
	pathBlocks := map[string]bool{}
	name := "the entity"
	if viaPath {
		sib := gen.EntryTarget(st, "sibling")
		parent := gen.WritePlainDir(st, map[string]cid.Cid{name: entity, "sibling": sib}, map[string]uint64{name: 1, "sibling": 1}, true)
		start = parent
		pathBlocks[parent.KeyString()] = true
		res.probe("via-path-selector")
	}
	accessName := []string{"preload-reifier", "preload-selector", "entity-selector", "preload-constructor"}[access]
	res.probe(accessName)
	sc.Access = accessName
	if viaPath {
		sc.Access += " via path"
	}

	exec := func(p *faultPlan) (err error, requested []cid.Cid, hit []cid.Cid, panicked bool, site, pmsg string) {
		st.ResetLog()
		st.ReadPolicy = nil
		var hits func() []cid.Cid
		w := newWorld(st, false, nodeReifier)
		if derivedLS {
			w = newDerivedWorld(st, false)
		}
		panicked, site, pmsg = guard(func() {
			// the caller loads the starting block itself
			rn, lerr := w.LoadRoot(start)
			if lerr != nil {
				err = lerr
				return
			}
			doAccess := func() error {
				switch access {
				case 0:
					in := rn
					if lazyFirst {
						// the caller already holds the LAZY view of this block (it
						// asked for "unixfs" first) and now wants the preloading one
						if ln, e := w.LS.KnownReifiers["unixfs"](linking.LinkContext{}, rn, &w.LS); e == nil {
							in = ln
						}
					}
					_, e := w.LS.KnownReifiers["unixfs-preload"](linking.LinkContext{}, in, &w.LS)
					return e
				case 3:
					// file.NewUnixFSFileWithPreload is exported and documented as
					// the preloading view's implementation; a caller that knows it
					// has a file hands it whatever its link system loaded (under
					// NodeReifier = Reify that is an already reified file node)
					_, e := file.NewUnixFSFileWithPreload(context.Background(), rn, &w.LS)
					return e
				default:
					target := unixfsnode.MatchUnixFSPreloadSelector
					var visit traversal.VisitFn = func(traversal.Progress, datamodel.Node) error { return nil }
					if access == 2 {
						target = unixfsnode.MatchUnixFSEntitySelector
						visit = unixfsnode.BytesConsumingMatcher
					}
					var sel datamodel.Node
					if viaPath {
						sel = unixfsnode.UnixFSPathSelectorBuilder(name, target, false)
					} else {
						sel = target.Node()
					}
					return walkMatching(w, rn, sel, visit)
				}
			}
			priorUse := false
			if lsReifies && isDir && !viaPath && access != 2 && planSeed%2 == 1 {
				// the link system handed out an already reified directory node and
				// the caller has been using it lazily (a lookup, a Length) before
				// asking for the preloading view: every shard must still be fetched
				_, _ = rn.LookupByString("entry that is looked up before the preload")
				if planSeed%4 == 3 {
					_ = rn.Length()
				}
				st.ResetLog()
				st.SetReadCount(1) // the caller's own load of the root stays request #0
				priorUse = true
				res.probe("lazy-use-before-preload")
			}
			_ = priorUse
			if p != nil && p.after == repeatMarker {
				// a history on ONE root object and ONE link system: the access
				// succeeds on a complete store, then blocks go missing, then
				// the same access is asked for again. Nothing remembered from
				// the first time may stand in for actually loading the blocks.
				if e := doAccess(); e != nil {
					err = fmt.Errorf("first (fault-free) access failed: %w", e)
					return
				}
				st.ResetLog()
				st.SetReadCount(1)
				res.probe("repeat-access-on-same-root-object")
			}
			if p != nil {
				// a fault on the root block itself can only be met when the
				// library re-requests it; arm after the caller's own load
				hits = p.install(st)
			}
			err = doAccess()
		})
		if hits != nil {
			hit = hits()
		}
		if len(st.ReadCids) > 0 && !(p != nil && p.after == repeatMarker) && !(lsReifies && isDir && !viaPath && access != 2 && planSeed%2 == 1) {
			requested = append([]cid.Cid{start}, st.ReadCids[1:]...)
		} else {
			requested = append([]cid.Cid{start}, st.ReadCids...)
		}
		res.Execs++
		res.Events += len(st.Log)
		res.fired(st.Fired)
		st.Fired = map[string]int{}
		return
	}
	_ = sb.NewSelectorSpecBuilder

	// ---- fault-free: requested set == entity set (plus the parent on a path)
	err, requested, _, panicked, site, pmsg := exec(nil)
	if panicked {
		res.Violation = &Violation{Class: "c06/panic@" + site, Msg: "fault-free " + sc.Access + " panicked: " + pmsg}
		return res
	}
	if err != nil {
		res.Violation = &Violation{Class: "c06/fault-free-error", Msg: fmt.Sprintf("%s on a complete store failed: %v", sc.Access, err)}
		res.Excerpt = excerpt(st.Log, 12)
		return res
	}
	got := map[string]bool{}
	for _, c := range requested {
		got[c.KeyString()] = true
	}
	for _, c := range requested {
		k := c.KeyString()
		if !want[k] && !pathBlocks[k] {
			res.Violation = &Violation{Class: "c06/over-fetch", Msg: fmt.Sprintf("%s requested block %s which is not part of the entity (%d entity blocks, %d requested)", sc.Access, shortCid(c), len(want), len(got))}
			res.Excerpt = excerpt(st.Log, 12)
			return res
		}
	}
	for _, c := range order {
		if !got[c.KeyString()] {
			res.Violation = &Violation{Class: "c06/under-fetch", Msg: fmt.Sprintf("%s finished without requesting entity block %s (%d of %d entity blocks requested)", sc.Access, shortCid(c), len(got)-len(pathBlocks), len(want))}
			res.Excerpt = excerpt(st.Log, 12)
			return res
		}
	}
	nLoads := len(requested)
	sig := sigOfLog(fnvMix(0, uint64(access), boolU(viaPath), boolU(isDir)), st.Log)
	if len(order) >= 2 {
		res.NonTrivial = true
	}

	// ---- fault sweep
	var plans []faultPlan
	kinds := []store.FaultKind{store.NotFound, store.EIOOpen, store.EIOMid}
	for _, b := range order {
		if b.Equals(entity) && !viaPath {
			continue // loaded by the caller, outside the library
		}
		for i, k := range kinds {
			plans = append(plans, faultPlan{kind: k, targets: []cid.Cid{b}, kth: -1, after: int(planSeed>>uint(8*i)) & 0xffff})
		}
	}
	for i, b := range order {
		if b.Equals(entity) && !viaPath {
			continue
		}
		fl := 1 + i%7
		if fl == 4 && (viaPath || b.Equals(entity)) {
			fl = 1 // SkipMe only on blocks that go-unixfsnode itself loads
		}
		kd := kinds[i%3]
		if fl == 5 {
			// a bare io.EOF is a fault only when the store answers the OPEN with
			// it; in mid-stream it is a truncation (caught by the hash check) and
			// on an empty block it is simply the complete block
			kd = store.EIOOpen
		}
		plans = append(plans, faultPlan{kind: kd, targets: []cid.Cid{b}, kth: -1, after: 11 * i, flavour: fl})
	}
	// every k when the sweep stays within ~3M block loads per run, otherwise
	// evenly strided (a de-duplicated DAG can have thousands of loads for a
	// few dozen blocks, and each execution repeats them all)
	for k := 1; k < nLoads; k += kthStride(nLoads) {
		plans = append(plans, faultPlan{kind: kinds[k%3], kth: k, after: 5 * k})
	}
	if nLoads > 1 {
		plans = append(plans, faultPlan{kind: kinds[nLoads%3], kth: nLoads - 1, after: 3})
	}
	for _, k := range []int{1, nLoads / 2, nLoads - 1} {
		if k >= 1 && k < nLoads {
			plans = append(plans, faultPlan{kind: store.EIOOpen, kth: k, onward: true, flavour: []int{0, 6}[k%2]})
		}
	}
	pr := tape.NewSplitMix(planSeed)
	if len(order) >= 3 {
		for i := 0; i < 5; i++ {
			n := 2 + int(pr.Next()%2)
			var tg []cid.Cid
			for j := 0; j < n; j++ {
				tg = append(tg, order[1+int(pr.Next()%uint64(len(order)-1))])
			}
			plans = append(plans, faultPlan{kind: kinds[int(pr.Next()%3)], targets: tg, kth: -1, after: int(pr.Next() & 0xffff)})
		}
	}
	// repeat-on-the-same-root-object histories: first, middle and last block
	// (not when the link system hands out reified nodes: the root object is
	// then itself a node that legitimately keeps the shards it has loaded)
	if len(order) >= 2 && !lsReifies {
		for _, i := range []int{1, len(order) / 2, len(order) - 1} {
			if i >= 1 && i < len(order) {
				plans = append(plans, faultPlan{kind: store.NotFound, targets: []cid.Cid{order[i]}, kth: -1, after: repeatMarker})
			}
		}
	}
	sc.Plans = len(plans)
	last := order[len(order)-1]
	for _, p := range plans {
		p := p
		err, _, hit, panicked, site, pmsg := exec(&p)
		sig = sigOfLog(fnvMix(sig, uint64(p.kind), boolU(p.kth >= 0), boolU(err == nil)), st.Log)
		if panicked {
			sc.Failed = p.String()
			res.Violation = &Violation{Class: "c06/panic@" + site, Msg: fmt.Sprintf("plan %s: panic: %s", p, pmsg)}
			break
		}
		if len(hit) == 0 {
			// The plan targets a block that the fault-free run requested, so a
			// complete traversal must meet it.
			if err == nil {
				sc.Failed = p.String()
				res.Violation = &Violation{Class: "c06/fault-not-met", Msg: fmt.Sprintf("plan %s: the operation succeeded without ever requesting the faulted entity block", p)}
				res.Excerpt = excerpt(st.Log, 12)
				break
			}
			continue
		}
		res.NonTrivial = true
		if p.kth >= 0 {
			res.probe("kth-load")
		} else {
			if len(p.targets) > 1 {
				res.probe("subset-fault")
			}
			for _, t := range p.targets {
				if t.Equals(last) {
					res.probe("fault-on-last-block")
				}
				if interior[t.KeyString()] {
					res.probe("fault-on-interior")
				}
			}
		}
		if err == nil {
			// success is acceptable only if every entity block was, in the end,
			// delivered by the store (a transient fault absorbed by a later,
			// successful request for the same block leaves nothing partial)
			okLoaded := map[string]bool{start.KeyString(): true}
			for _, e := range st.Log {
				if e.Kind == "ReadOpen" && e.Outcome == "ok" {
					if c, cerr := cid.Decode(e.Cid); cerr == nil {
						okLoaded[c.KeyString()] = true
					}
				}
			}
			complete := true
			for _, c := range order {
				if !okLoaded[c.KeyString()] {
					complete = false
				}
			}
			if complete {
				res.probe("transient-fault-absorbed-by-reload")
				continue
			}
			sc.Failed = p.String()
			var hs []string
			for _, h := range hit {
				hs = append(hs, shortCid(h))
			}
			res.Violation = &Violation{Class: "c06/silent-partial-" + accessName, Msg: fmt.Sprintf("plan %s: block(s) %s could not be loaded but %s reported success", p, strings.Join(hs, ","), sc.Access)}
			res.Excerpt = excerpt(st.Log, 12)
			break
		}
	}
	res.Sig = sig
	return res
}
