package checks

import (
	"bytes"
	"fmt"
	"os"
	"path/filepath"
	"strings"

	"github.com/ipfs/go-cid"
	"github.com/ipfs/go-unixfsnode/data/builder"
	quickbuilder "github.com/ipfs/go-unixfsnode/data/builder/quick"
	dagpb "github.com/ipld/go-codec-dagpb"
	"github.com/ipld/go-ipld-prime"
	cidlink "github.com/ipld/go-ipld-prime/linking/cid"
	mh "github.com/multiformats/go-multihash"

	"verif/sim/gen"
	"verif/sim/sched"
	"verif/sim/source"
	"verif/sim/store"
	"verif/sim/tape"
	"verif/sim/world"
)

// C10 — building is deterministic, independent of entry order and read fragmentation.
type c10 struct{}

func init() { register(c10{}) }

func (c10) ID() string    { return "C10" }
func (c10) Level() string { return "exploration" }
func (c10) Technique() string {
	return "deterministic simulation: one logical input is built repeatedly under seeded schedules - fragmentation schedules of the simulated input stream (whole, 1-byte, random, interleaved empty reads, data delivered with EOF, chunk-aligned), seeded permutations of the entry slice, and in-process repetitions that re-draw Go's map iteration order (observed through the commit order at the simulated store) - and all returned (link,size) pairs must be identical"
}
func (c10) Rule() string {
	return "one evaluation = one complete build; per seeded logical input 6-15 builds are compared pairwise (file: one per input-stream fragmentation schedule; entry set: permutations x repetitions through BuildUnixFSDirectory, BuildUnixFSShardedDirectory with murmur3 and other hashers, and the quick builder; concurrent mode: 2-3 builds as scheduled tasks on one link system against each build alone); entry sets include mixed link lengths, aliased targets, names that are not valid UTF-8, bucket-label-like prefixes, and sets straddling the auto-shard threshold; non-trivial = the build wrote >= 2 blocks or compared >= 2 entries; distinct = distinct (builder, input spec, block-count class, schedule trace) signature"
}
func (c10) Assumptions() []string {
	return []string{
		"no reference result is used: only equality among builds of the same logical input, so the oracle cannot be wrong about what the link should be",
		"Go's map iteration order inside the shard builder cannot be dictated; it is re-drawn by repetition and observed (distinct commit orders are counted)",
		"a Read that returns (0, nil) is legal for io.Reader and is part of the schedule space",
	}
}
func (c10) RealStub() map[string]string {
	return realStub("input stream = SimSource; storage = fault-free SimStore used as commit-order observer")
}
func (c10) Runs(t Tier) int {
	if t == Thorough {
		return 50000
	}
	return 1500
}
func (c10) RecordWidths() map[string]int { return nil }
func (c10) RequiredProbes() []string {
	return []string{"concurrent-builders", "sequential-builds-on-one-link-system", "seekable-source-after-header", "failed-build-before", "recursive-import", "reimport-after-in-place-edit", "default-chunker", "default-chunker-at-block-boundary", "mixed-link-lengths", "aliased-entries", "non-murmur-hasher", "file-fragmentation", "rabin-chunker", "dir-permutation", "sharded-permutation", "quick-builder", "distinct-commit-orders>=2", "nested-shards", "straddles-shard-threshold", "multi-level-file", "names-with-identical-hash"}
}

type c10Scenario struct {
	Kind   string   `json:"kind"`
	Spec   string   `json:"spec"`
	Builds []string `json:"builds"`
}

type buildResult struct {
	link   string
	size   uint64
	err    error
	order  string
	blocks int
}

func runBuild(width int, f func(ls *ipld.LinkSystem) (ipld.Link, uint64, error)) (br buildResult, panicked bool, site, pmsg string, events int) {
	st := store.New()
	w := world.New(st, false)
	old := builder.DefaultLinksPerBlock
	builder.DefaultLinksPerBlock = width
	defer func() { builder.DefaultLinksPerBlock = old }()
	panicked, site, pmsg = guard(func() {
		l, sz, err := f(&w.LS)
		br.err = err
		br.size = sz
		if l != nil {
			br.link = l.String()
		}
	})
	var sb strings.Builder
	for _, c := range st.Keys() {
		sb.WriteString(c.KeyString())
	}
	br.order = sb.String()
	br.blocks = st.Len()
	return br, panicked, site, pmsg, len(st.Log)
}

func (c10) Run(ts *tape.Set, tier Tier) *Result {
	res := &Result{}
	shape := ts.T("shape")
	kind := shape.Pick(6, 4, 6, 4, 4, 1) // file, plain dir, sharded dir, quick builder, concurrent builders, recursive import
	if kind == 4 {
		return c10Concurrent(ts, tier, res)
	}
	if kind == 5 {
		return c10Recursive(ts, tier, res)
	}
	sc := &c10Scenario{}
	res.Scenario = sc
	type named struct {
		name string
		br   buildResult
	}
	var results []named
	var sig uint64
	record := func(name string, width int, f func(ls *ipld.LinkSystem) (ipld.Link, uint64, error)) bool {
		br, panicked, site, pmsg, ev := runBuild(width, f)
		res.Execs++
		res.Events += ev
		sc.Builds = append(sc.Builds, name)
		if panicked {
			res.Violation = &Violation{Class: "c10/panic@" + site, Msg: name + " panicked: " + pmsg}
			return false
		}
		results = append(results, named{name, br})
		return true
	}
	perm := func(n int, r *tape.SplitMix64) []int {
		p := make([]int, n)
		for i := range p {
			p[i] = i
		}
		for i := n - 1; i > 0; i-- {
			j := int(r.Next() % uint64(i+1))
			p[i], p[j] = p[j], p[i]
		}
		return p
	}

	switch kind {
	case 0:
		maxSize := 8 << 10
		if tier == Thorough {
			maxSize = 64 << 10
		}
		spec := gen.DrawFileSpec(shape, gen.FileOpts{MaxSize: maxSize, OnlyBuilder: true})
		seed := shape.Raw()
		if seed%16 == 0 && strings.HasPrefix(spec.Chunker, "size-262144") || spec.Chunker == "" || spec.Chunker == "default" {
			if seed%3 == 0 {
				// sizes at and around the default block size
				spec.Size = []int{262143, 262144, 262145, 524288, 524289}[(seed>>8)%5]
				res.probe("default-chunker-at-block-boundary")
			}
			res.probe("default-chunker")
		}
		content := gen.Content(spec)
		sc.Kind, sc.Spec = "file", spec.String()
		res.probe("file-fragmentation")
		if strings.HasPrefix(spec.Chunker, "rabin") {
			res.probe("rabin-chunker")
		}
		align := 16
		fmt.Sscanf(spec.Chunker, "size-%d", &align)
		for m := source.Mode(0); m < source.NModes; m++ {
			m := m
			ok := record("source="+m.String(), spec.Width, func(ls *ipld.LinkSystem) (ipld.Link, uint64, error) {
				src := source.New(content, m, seed+uint64(m))
				src.Align = align
				return builder.BuildUnixFSFile(src, spec.Chunker, ls)
			})
			if !ok {
				return res
			}
		}
		// the same content behind a header, handed over as a ReadSeeker that was
		// already read past the header
		{
			hdr := make([]byte, 1+int(seed%37))
			for i := range hdr {
				hdr[i] = byte(seed >> uint(i%8))
			}
			whole := append(append([]byte(nil), hdr...), content...)
			if !record("source=seekable-after-header", spec.Width, func(ls *ipld.LinkSystem) (ipld.Link, uint64, error) {
				return builder.BuildUnixFSFile(source.NewSeekable(whole, int64(len(hdr))), spec.Chunker, ls)
			}) {
				return res
			}
			res.probe("seekable-source-after-header")
		}
		// the standard library's in-memory readers: they carry optional
		// interfaces (Len, Seek, WriteTo, ReadAt) a builder may take short cuts
		// through; the logical input is the same bytes
		if !record("source=bytes.Reader", spec.Width, func(ls *ipld.LinkSystem) (ipld.Link, uint64, error) {
			return builder.BuildUnixFSFile(bytes.NewReader(content), spec.Chunker, ls)
		}) {
			return res
		}
		if !record("source=bytes.Buffer", spec.Width, func(ls *ipld.LinkSystem) (ipld.Link, uint64, error) {
			return builder.BuildUnixFSFile(bytes.NewBuffer(append([]byte(nil), content...)), spec.Chunker, ls)
		}) {
			return res
		}
		res.probe("stdlib-reader-sources")
		// a second random schedule and a repeat of the whole-read build
		record("source=random#2", spec.Width, func(ls *ipld.LinkSystem) (ipld.Link, uint64, error) {
			return builder.BuildUnixFSFile(source.New(content, source.Random, seed^0xfeed), spec.Chunker, ls)
		})
		if len(results) > 0 && results[0].br.blocks > spec.Width+1 {
			res.probe("multi-level-file")
		}
	case 1, 2, 3:
		dspec := gen.DrawDirSpec(shape, gen.DirOpts{MaxN: 250, OnlyBuilder: true})
		straddle := shape.Intn(12) == 0 || (tier == Thorough && shape.Intn(4) == 0)
		pseed := shape.Raw()
		scratch := store.New()
		names := gen.Names(dspec)
		if straddle && kind != 2 {
			// sum(len(name)+36) lands within a few entries of 262144
			dspec.N, dspec.Mined = 1400, 0
			names = gen.Names(dspec)
			target := 262144
			per := target/len(names) - 36
			for i := range names {
				pad := per - len(names[i]) - 1
				if pad < 0 {
					pad = 0
				}
				names[i] = names[i] + "-" + strings.Repeat("p", pad)
			}
			res.probe("straddles-shard-threshold")
		}
		if kind == 2 && pseed%7 == 3 {
			// two names with the same 64-bit hash: no HAMT can hold both, and
			// whatever the builder does with such a set it must do in every
			// entry order
			a, b := gen.CollidingNames(pseed)
			names = append(names, a, b)
			res.probe("names-with-identical-hash")
		}
		ents := map[string]cid.Cid{}
		sizes := map[string]int64{}
		pr := tape.NewSplitMix(pseed)
		mixed := pseed%3 != 0 // links of different byte lengths in one directory
		for _, n := range names {
			kind := 0
			if mixed {
				if v := pr.Next() % 16; v < 4 {
					kind = int(v)
				}
			}
			ents[n] = gen.EntryCid(n, kind)
			sizes[n] = int64(pr.Next() % 100000)
		}
		if pseed%4 == 1 && len(names) >= 2 {
			// the same child under several names (hard links / copies), with the
			// sizes the caller happened to know for each name
			for i := 1; i < len(names); i += 3 {
				ents[names[i]] = ents[names[i-1]]
				if pr.Next()%2 == 0 {
					sizes[names[i]] = 0
				}
			}
			res.probe("aliased-entries")
		}
		if mixed {
			res.probe("mixed-link-lengths")
		}
		if straddle && kind != 2 {
			// land the size estimate (sum of name and link lengths) within +-40
			// of the auto-shard threshold
			est := 0
			for _, n := range names {
				est += len(n) + ents[n].ByteLen()
			}
			adj := 262144 + int(pseed%81) - 40 - est
			old := names[0]
			nn := old
			if adj > 0 {
				nn = old + strings.Repeat("q", adj)
			} else if -adj < len(old)-4 {
				nn = old[:len(old)+adj]
			}
			if nn != old {
				if _, dup := ents[nn]; !dup {
					ents[nn], sizes[nn] = ents[old], sizes[old]
					delete(ents, old)
					delete(sizes, old)
					names[0] = nn
				}
			}
		}
		_ = scratch
		sc.Spec = dspec.String()
		mk := func(order []int) []dagpb.PBLink {
			ns := make([]string, len(names))
			for i, j := range order {
				ns[i] = names[j]
			}
			l, _ := gen.PBLinks(ns, ents, sizes)
			return l
		}
		nPerm := 3
		if tier == Thorough {
			nPerm = 5
		}
		switch kind {
		case 1:
			sc.Kind = "BuildUnixFSDirectory"
			res.probe("dir-permutation")
			for i := 0; i < nPerm; i++ {
				lnks := mk(perm(len(names), pr))
				for rep := 0; rep < 2; rep++ {
					if !record(fmt.Sprintf("perm%d/rep%d", i, rep), 174, func(ls *ipld.LinkSystem) (ipld.Link, uint64, error) {
						return builder.BuildUnixFSDirectory(lnks, ls)
					}) {
						return res
					}
				}
			}
		case 2:
			sc.Kind = "BuildUnixFSShardedDirectory"
			res.probe("sharded-permutation")
			if pseed%3 == 2 && len(names) >= 2 {
				// an earlier build in this process that FAILS (the same name twice
				// can never be placed: "too deep") must leave nothing behind
				// that changes later builds
				bad := mk(perm(len(names), pr))
				bad = append(bad, bad[0], bad[len(bad)/2])
				_, _, _, _, _ = runBuild(174, func(ls *ipld.LinkSystem) (ipld.Link, uint64, error) {
					return builder.BuildUnixFSShardedDirectory(dspec.Fanout, mh.MURMUR3X64_64, bad, ls)
				})
				res.Execs++
				res.probe("failed-build-before")
			}
			// the builder accepts any registered hash function for bucket
			// selection; murmur3 is what readers understand, the others are
			// part of its configuration space all the same
			hasher := uint64(mh.MURMUR3X64_64)
			if v := pseed >> 20 % 5; v >= 3 {
				hasher = []uint64{mh.SHA2_256, mh.SHA2_512}[v-3]
				res.probe("non-murmur-hasher")
				sc.Kind += fmt.Sprintf(" hasher=%#x", hasher)
			}
			for i := 0; i < nPerm; i++ {
				lnks := mk(perm(len(names), pr))
				for rep := 0; rep < 3; rep++ {
					if !record(fmt.Sprintf("perm%d/rep%d", i, rep), 174, func(ls *ipld.LinkSystem) (ipld.Link, uint64, error) {
						return builder.BuildUnixFSShardedDirectory(dspec.Fanout, hasher, lnks, ls)
					}) {
						return res
					}
					if i == 0 && rep == 0 {
						// in between, the process builds the same entries with
						// ANOTHER bucket hash function: nothing of that build may
						// leak into the next one
						other := uint64(mh.SHA2_256)
						if hasher == mh.SHA2_256 {
							other = mh.MURMUR3X64_64
						}
						_, _, _, _, _ = runBuild(174, func(ls *ipld.LinkSystem) (ipld.Link, uint64, error) {
							return builder.BuildUnixFSShardedDirectory(dspec.Fanout, other, lnks, ls)
						})
						res.Execs++
						res.probe("other-hasher-build-in-between")
					}
				}
			}
		case 3:
			sc.Kind = "quickbuilder.NewMapDirectory"
			res.probe("quick-builder")
			for rep := 0; rep < 6; rep++ {
				if !record(fmt.Sprintf("rep%d", rep), 174, func(ls *ipld.LinkSystem) (l ipld.Link, sz uint64, err error) {
					err = quickbuilder.Store(ls, func(b *quickbuilder.Builder) error {
						m := map[string]quickbuilder.Node{}
						for _, n := range names {
							m[n] = &fixedNode{cidlink.Link{Cid: ents[n]}, sizes[n]}
						}
						d := b.NewMapDirectory(m)
						l = d.Link()
						s, _ := d.Size()
						sz = uint64(s)
						return nil
					})
					return
				}) {
					return res
				}
			}
		}
	}
	if len(results) == 0 {
		res.Skipped, res.SkipReason = true, "no builds"
		return res
	}
	// every build must agree with the first
	first := results[0]
	if first.br.err != nil {
		// all builds must then fail alike; a failing builder is not this
		// property's subject unless only some schedules fail
		for _, r := range results[1:] {
			if r.br.err == nil {
				res.Violation = &Violation{Class: "c10/schedule-dependent-failure/" + sc.Kind, Msg: fmt.Sprintf("build %q failed (%v) but %q succeeded on the same logical input", first.name, first.br.err, r.name)}
				return res
			}
		}
		res.Skipped, res.SkipReason = true, "builder fails on this input: "+first.br.err.Error()
		return res
	}
	orders := map[string]bool{}
	for _, r := range results {
		orders[r.br.order] = true
		if r.br.err != nil {
			res.Violation = &Violation{Class: "c10/schedule-dependent-failure/" + sc.Kind, Msg: fmt.Sprintf("build %q succeeded but %q failed on the same logical input: %v", first.name, r.name, r.br.err)}
			return res
		}
		if r.br.link != first.br.link {
			res.Violation = &Violation{Class: "c10/link-differs/" + sc.Kind, Msg: fmt.Sprintf("builds %q and %q of the same logical input returned different links: %s vs %s", first.name, r.name, first.br.link, r.br.link)}
			return res
		}
		if r.br.size != first.br.size {
			res.Violation = &Violation{Class: "c10/size-differs/" + sc.Kind, Msg: fmt.Sprintf("builds %q and %q of the same logical input returned different sizes: %d vs %d (same link %s)", first.name, r.name, first.br.size, r.br.size, first.br.link)}
			return res
		}
	}
	if len(orders) >= 2 {
		res.probe("distinct-commit-orders>=2")
	}
	if (kind == 2) && first.br.blocks >= 3 {
		res.probe("nested-shards")
	}
	res.probeN("commit-orders-observed", len(orders))
	res.NonTrivial = first.br.blocks >= 2 || ((kind == 1 || kind == 3) && len(sc.Builds) >= 2 && !strings.Contains(sc.Spec, " n=1 "))
	bc := 0
	for b := first.br.blocks; b > 0; b /= 2 {
		bc++
	}
	sig = fnvMix(sig, uint64(kind), uint64(bc), tape.HashString(sc.Spec)) // commit-order count is observed map order: not part of the signature
	res.Sig = sig
	return res
}

// c10Concurrent: two or three builds run as SimSched tasks through ONE link
// system and store, parked at every write open and commit and released in a
// tape-chosen order. The result of each must be what the same build returns
// when it runs alone: the link and size are a function of the logical input,
// not of what else the process is building at the time.
func c10Concurrent(ts *tape.Set, tier Tier, res *Result) *Result {
	shape := ts.T("shape")
	sc := &c10Scenario{Kind: "concurrent builders"}
	res.Scenario = sc
	nTasks := 2 + shape.Intn(2)
	width := []int{2, 3, 174}[shape.Intn(3)]
	type job struct {
		name string
		run  func(ls *ipld.LinkSystem) (ipld.Link, uint64, error)
	}
	var jobs []job
	for t := 0; t < nTasks; t++ {
		if shape.Intn(3) == 2 {
			dspec := gen.DrawDirSpec(shape, gen.DirOpts{MaxN: 60, OnlyBuilder: true})
			names := gen.Names(dspec)
			ents := map[string]cid.Cid{}
			for _, n := range names {
				ents[n] = gen.EntryCid(n, 0)
			}
			lnks, _ := gen.PBLinks(names, ents, nil)
			jobs = append(jobs, job{"sharded dir " + dspec.String(), func(ls *ipld.LinkSystem) (ipld.Link, uint64, error) {
				return builder.BuildUnixFSShardedDirectory(dspec.Fanout, mh.MURMUR3X64_64, lnks, ls)
			}})
			continue
		}
		spec := gen.DrawFileSpec(shape, gen.FileOpts{MaxSize: 2 << 10, OnlyBuilder: true})
		spec.Width = width
		content := gen.Content(spec)
		jobs = append(jobs, job{"file " + spec.String(), func(ls *ipld.LinkSystem) (ipld.Link, uint64, error) {
			return builder.BuildUnixFSFile(bytes.NewReader(content), spec.Chunker, ls)
		}})
	}
	for _, j := range jobs {
		sc.Builds = append(sc.Builds, j.name)
	}
	res.probe("concurrent-builders")
	// each alone
	var alone []buildResult
	for _, j := range jobs {
		br, panicked, site, pmsg, ev := runBuild(width, j.run)
		res.Execs++
		res.Events += ev
		if panicked {
			res.Violation = &Violation{Class: "c10/panic@" + site, Msg: j.name + " panicked: " + pmsg}
			return res
		}
		if br.err != nil {
			res.Skipped, res.SkipReason = true, "builder fails on this input: "+br.err.Error()
			return res
		}
		alone = append(alone, br)
	}
	// one after the other on ONE link system and store (j0, j1, .., j0 again):
	// nothing a build leaves behind may change what a later build returns
	{
		sst := store.New()
		sw := world.New(sst, false)
		old := builder.DefaultLinksPerBlock
		builder.DefaultLinksPerBlock = width
		seq := append(append([]int(nil), rangeInts(len(jobs))...), 0)
		for _, i := range seq {
			var l ipld.Link
			var sz uint64
			var err error
			panicked, site, pmsg := guard(func() { l, sz, err = jobs[i].run(&sw.LS) })
			res.Execs++
			if panicked {
				builder.DefaultLinksPerBlock = old
				res.Violation = &Violation{Class: "c10/panic@" + site, Msg: jobs[i].name + " panicked when built after other builds on the same link system: " + pmsg}
				return res
			}
			ls := ""
			if l != nil {
				ls = l.String()
			}
			if err != nil || ls != alone[i].link || sz != alone[i].size {
				builder.DefaultLinksPerBlock = old
				res.Violation = &Violation{Class: "c10/result-depends-on-earlier-builds", Msg: fmt.Sprintf("%s returns (%s, %d) alone and (%s, %d, err=%v) when built after other builds on the same link system", jobs[i].name, alone[i].link, alone[i].size, ls, sz, err)}
				return res
			}
		}
		builder.DefaultLinksPerBlock = old
		res.probe("sequential-builds-on-one-link-system")
	}
	// together
	st := store.New()
	w := world.New(st, false)
	schedTape := ts.T("sched")
	sch := sched.New(func(n int) int { return schedTape.Intn(n) })
	st.Yield = sch.Yield
	got := make([]buildResult, len(jobs))
	old := builder.DefaultLinksPerBlock
	builder.DefaultLinksPerBlock = width
	for i, j := range jobs {
		i, j := i, j
		sch.Go(func() {
			l, sz, err := j.run(&w.LS)
			got[i].err, got[i].size = err, sz
			if l != nil {
				got[i].link = l.String()
			}
		})
	}
	panics := sch.Run()
	builder.DefaultLinksPerBlock = old
	if sch.Deadlocked {
		res.Violation = &Violation{Class: "c10/deadlock-in-concurrent-build", Msg: fmt.Sprintf("concurrent builds on one link system: every unfinished build is blocked inside the library (schedule %v)", sch.Trace)}
		return res
	}
	res.Execs++
	res.Events += len(st.Log)
	var sig uint64
	inter := false
	for i, id := range sch.Trace {
		sig = fnvMix(sig, uint64(id))
		if i >= 2 && sch.Trace[i] == sch.Trace[i-2] && sch.Trace[i] != sch.Trace[i-1] {
			inter = true
		}
	}
	res.Sig = fnvMix(sig, uint64(len(jobs)))
	res.NonTrivial = inter
	for i, p := range panics {
		if p != nil {
			res.Violation = &Violation{Class: "c10/panic-in-concurrent-build", Msg: fmt.Sprintf("%s panicked while built concurrently: %v", jobs[i].name, p)}
			return res
		}
	}
	for i := range jobs {
		if got[i].err != nil {
			res.Violation = &Violation{Class: "c10/schedule-dependent-failure/concurrent", Msg: fmt.Sprintf("%s succeeds alone but fails when built concurrently with other builds on the same link system: %v", jobs[i].name, got[i].err)}
			return res
		}
		if got[i].link != alone[i].link {
			res.Violation = &Violation{Class: "c10/link-differs/concurrent", Msg: fmt.Sprintf("%s returns link %s alone and %s when other builds run interleaved on the same link system (schedule %v)", jobs[i].name, alone[i].link, got[i].link, sch.Trace)}
			return res
		}
		if got[i].size != alone[i].size {
			res.Violation = &Violation{Class: "c10/size-differs/concurrent", Msg: fmt.Sprintf("%s returns size %d alone and %d when other builds run interleaved on the same link system (schedule %v)", jobs[i].name, alone[i].size, got[i].size, sch.Trace)}
			return res
		}
	}
	return res
}

// c10Recursive: the recursive importer over a real temporary tree. The same
// tree imported twice (same and fresh link system) must give the same link,
// and after a file was rewritten IN PLACE - same length, modification time put
// back, the classic case a stat-based shortcut gets wrong - a re-import
// through the link system used before must give what a fresh import gives.
func c10Recursive(ts *tape.Set, tier Tier, res *Result) *Result {
	shape := ts.T("shape")
	sc := &c10Scenario{Kind: "BuildUnixFSRecursive"}
	res.Scenario = sc
	dir, err := os.MkdirTemp("", "verif-c10-")
	if err != nil {
		res.Skipped, res.SkipReason = true, err.Error()
		return res
	}
	defer os.RemoveAll(dir)
	r := tape.NewSplitMix(shape.Raw())
	var files []string
	var mk func(p string, depth int)
	mk = func(p string, depth int) {
		n := 1 + int(r.Next()%4)
		for i := 0; i < n; i++ {
			name := fmt.Sprintf("e%d", i)
			if r.Next()%4 == 0 && depth < 2 {
				sub := filepath.Join(p, name+"d")
				_ = os.Mkdir(sub, 0o755)
				mk(sub, depth+1)
				continue
			}
			buf := make([]byte, 1+r.Next()%600)
			for j := range buf {
				buf[j] = byte(r.Next())
			}
			fp := filepath.Join(p, name+".bin")
			_ = os.WriteFile(fp, buf, 0o644)
			files = append(files, fp)
		}
	}
	mk(dir, 0)
	// two symbolic links: one relative, one with an ABSOLUTE target outside the
	// tree. A symlink's content is its target text, wherever the tree lies.
	_ = os.Symlink("e0.bin", filepath.Join(dir, "rel-link"))
	_ = os.Symlink("/etc/hostname", filepath.Join(dir, "abs-link"))
	sc.Spec = fmt.Sprintf("temp tree with %d files", len(files))
	res.probe("recursive-import")
	build := func(w *world.World) buildResult {
		var br buildResult
		panicked, site, pmsg := guard(func() {
			l, sz, err := builder.BuildUnixFSRecursive(dir, &w.LS)
			br.err, br.size = err, sz
			if l != nil {
				br.link = l.String()
			}
		})
		res.Execs++
		if panicked {
			br.err = fmt.Errorf("panic@%s: %s", site, pmsg)
		}
		return br
	}
	shared := world.New(store.New(), false)
	first := build(shared)
	if first.err != nil {
		res.Skipped, res.SkipReason = true, "import fails: "+first.err.Error()
		return res
	}
	again := build(shared)
	fresh := build(world.New(store.New(), false))
	sc.Builds = []string{"import", "import again (same link system)", "import (fresh link system)"}
	for i, b := range []buildResult{again, fresh} {
		if b.err != nil || b.link != first.link || b.size != first.size {
			res.Violation = &Violation{Class: "c10/link-differs/recursive", Msg: fmt.Sprintf("importing the same tree again (%s) returned (%s, %d, %v), the first import (%s, %d)", sc.Builds[i+1], b.link, b.size, b.err, first.link, first.size)}
			return res
		}
	}
	// rewrite one file in place: same length, other bytes, mtime put back
	fp := files[int(r.Next()%uint64(len(files)))]
	if fi, err := os.Stat(fp); err == nil {
		old, _ := os.ReadFile(fp)
		nb := append([]byte(nil), old...)
		for j := range nb {
			nb[j] ^= 0x5a
		}
		if f, err := os.OpenFile(fp, os.O_WRONLY, 0); err == nil {
			_, _ = f.Write(nb)
			_ = f.Close()
			_ = os.Chtimes(fp, fi.ModTime(), fi.ModTime())
			edited := build(shared)
			freshEdited := build(world.New(store.New(), false))
			sc.Builds = append(sc.Builds, "re-import after an in-place edit (same link system)", "import of the edited tree (fresh link system)")
			res.probe("reimport-after-in-place-edit")
			if freshEdited.err == nil && (edited.err != nil || edited.link != freshEdited.link || edited.size != freshEdited.size) {
				res.Violation = &Violation{Class: "c10/result-depends-on-earlier-builds/recursive", Msg: fmt.Sprintf("after %s was rewritten in place (same length, same mtime) a re-import through the link system used before returns (%s, %d, %v); a fresh import of the same tree returns (%s, %d)", filepath.Base(fp), edited.link, edited.size, edited.err, freshEdited.link, freshEdited.size)}
				return res
			}
		}
	}
	// the same tree at another place, three directories deeper: the import is
	// a function of the tree, not of where it is mounted
	{
		elsewhere, err := os.MkdirTemp("", "verif-c10-elsewhere-")
		if err == nil {
			deep := filepath.Join(elsewhere, "a", "b", "the-tree")
			if copyTree(dir, deep) == nil {
				var br buildResult
				w := world.New(store.New(), false)
				panicked, site, pmsg := guard(func() {
					l, sz, err := builder.BuildUnixFSRecursive(deep, &w.LS)
					br.err, br.size = err, sz
					if l != nil {
						br.link = l.String()
					}
				})
				res.Execs++
				if panicked {
					br.err = fmt.Errorf("panic@%s: %s", site, pmsg)
				}
				ref := build(world.New(store.New(), false))
				res.probe("same-tree-at-another-location")
				sc.Builds = append(sc.Builds, "import of a copy of the tree three directories deeper")
				if ref.err == nil && (br.err != nil || br.link != ref.link || br.size != ref.size) {
					os.RemoveAll(elsewhere)
					res.Violation = &Violation{Class: "c10/link-differs/recursive-location", Msg: fmt.Sprintf("a copy of the tree (files, directories, symbolic links with the same targets) at another, deeper location imports as (%s, %d, %v); the tree itself as (%s, %d)", br.link, br.size, br.err, ref.link, ref.size)}
					return res
				}
			}
			os.RemoveAll(elsewhere)
		}
	}
	// a regular file whose stat size is 0 although it delivers bytes (procfs,
	// sysfs, some FUSE and network file systems): the logical input is what
	// reading it yields, so importing it and importing an ordinary copy of
	// those bytes must give the same link. (Skipped where no such file exists.)
	for _, pf := range []string{"/proc/sys/kernel/ostype", "/proc/sys/kernel/osrelease", "/proc/version"} {
		fi, err := os.Stat(pf)
		if err != nil || !fi.Mode().IsRegular() || fi.Size() != 0 {
			continue
		}
		data, err := os.ReadFile(pf)
		if err != nil || len(data) == 0 {
			continue
		}
		cp := filepath.Join(dir, "copy-of-proc-file")
		if os.WriteFile(cp, data, 0o644) != nil {
			continue
		}
		one := func(path string) buildResult {
			var br buildResult
			w := world.New(store.New(), false)
			panicked, site, pmsg := guard(func() {
				l, sz, err := builder.BuildUnixFSRecursive(path, &w.LS)
				br.err, br.size = err, sz
				if l != nil {
					br.link = l.String()
				}
			})
			res.Execs++
			if panicked {
				br.err = fmt.Errorf("panic@%s: %s", site, pmsg)
			}
			return br
		}
		viaProc, viaCopy := one(pf), one(cp)
		_ = os.Remove(cp)
		res.probe("file-whose-stat-size-is-zero")
		sc.Builds = append(sc.Builds, "import of "+pf, "import of a copy of its bytes")
		if viaCopy.err == nil && (viaProc.err != nil || viaProc.link != viaCopy.link || viaProc.size != viaCopy.size) {
			res.Violation = &Violation{Class: "c10/link-differs/recursive-stat-size", Msg: fmt.Sprintf("importing %s (a regular file of %d bytes whose stat size is 0) returned (%s, %d, %v); importing an ordinary file with the same bytes returns (%s, %d)", pf, len(data), viaProc.link, viaProc.size, viaProc.err, viaCopy.link, viaCopy.size)}
			return res
		}
		break
	}
	res.NonTrivial = len(files) >= 2
	res.Sig = fnvMix(0, 77, uint64(len(files)), tape.HashString(first.link))
	return res
}

func rangeInts(n int) []int {
	out := make([]int, n)
	for i := range out {
		out[i] = i
	}
	return out
}

type fixedNode struct {
	l  ipld.Link
	sz int64
}

func (f *fixedNode) Size() (int64, error) { return f.sz, nil }
func (f *fixedNode) Link() ipld.Link      { return f.l }

// copyTree copies regular files, directories and symbolic links (target text
// unchanged) from src to dst.
func copyTree(src, dst string) error {
	return filepath.Walk(src, func(p string, info os.FileInfo, err error) error {
		if err != nil {
			return err
		}
		rel, err := filepath.Rel(src, p)
		if err != nil {
			return err
		}
		to := filepath.Join(dst, rel)
		switch {
		case info.IsDir():
			return os.MkdirAll(to, 0o755)
		case info.Mode()&os.ModeSymlink != 0:
			t, err := os.Readlink(p)
			if err != nil {
				return err
			}
			return os.Symlink(t, to)
		case info.Mode().IsRegular():
			b, err := os.ReadFile(p)
			if err != nil {
				return err
			}
			return os.WriteFile(to, b, 0o644)
		}
		return nil
	})
}
