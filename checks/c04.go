package checks

import (
	"bytes"
	"context"
	"fmt"
	"io"
	"math"

	"github.com/ipfs/go-cid"
	unixfsnode "github.com/ipfs/go-unixfsnode"
	"github.com/ipfs/go-unixfsnode/file"
	"github.com/ipld/go-ipld-prime"
	"github.com/ipld/go-ipld-prime/datamodel"

	"verif/sim/dagmodel"
	"verif/sim/gen"
	"verif/sim/store"
	"verif/sim/tape"
	"verif/sim/world"
)

// C04 — file readers obey the io.ReadSeeker model under any Seek/Read history.
type c04 struct{}

func init() { register(c04{}) }

func (c04) ID() string    { return "C04" }
func (c04) Level() string { return "exploration" }
func (c04) Technique() string {
	return "deterministic simulation: seeded Seek/Read histories of 1-3 interleaved reader clients over a simulated block store (benign short reads), checked step by step against an independent (content,pos) reference model; tape shrinking to a minimal history"
}
func (c04) Rule() string {
	return "one evaluation = one seeded history (1-3 readers of one file node opened through file.NewUnixFSFile, Reify or the unixfs-preload reifier, optionally a second node over the same root, link system with or without NodeReifier; up to 60/200 ops among Read, Seek from start/current/end, whole-value AsBytes on the node, reader replacement) on one generated file DAG (this builder, boxo balanced/trickle importer, harness-written oddities: uneven/zero-length leaves, missing BlockSizes, single-link wrappers, Raw-typed and metadata-carrying nodes); non-trivial = the DAG has >= 2 blocks and the history contains at least one Seek and one Read that returned data; distinct = distinct abstract signature (op kinds x offset class x outcome, plus seam event sequence)"
}
func (c04) Assumptions() []string {
	return []string{
		"reference content = concatenation of leaf payloads in link order, parsed from the stored blocks with boxo merkledag/unixfs (not with go-unixfsnode)",
		"DAGs are well formed (declared sizes consistent); invalid whence values and offsets overflowing int64 are outside the statement and not generated",
		"after a Seek that must fail, the position is whatever Seek(0,SeekCurrent) reports next; the model resynchronises to it (the statement asks for consistency, not for an unchanged position)",
	}
}
func (c04) RealStub() map[string]string {
	return realStub("reader clients are sequentially interleaved on one goroutine; no storage faults (statement has none)")
}
func (c04) Runs(t Tier) int {
	if t == Thorough {
		return 400000
	}
	return 4000
}
func (c04) RecordWidths() map[string]int { return map[string]int{"ops": 4} }
func (c04) RequiredProbes() []string {
	return []string{"seek-on-boundary", "seek-end-relative-on-boundary", "read-crosses-interior-boundary", "read-at-eof", "negative-seek", "readers-interleaved-mid-chunk", "seek-past-end", "extreme-negative-seek", "dedup-dag", "depth>=3", "node-asbytes-mid-history", "second-file-read-in-between", "linksystem-with-node-reifier", "reader-replaced-mid-history", "drained-through-io-helpers", "drained-from-past-end", "inline-identity-block"}
}

type c04Op struct {
	Reader int    `json:"r"`
	Op     string `json:"op"`
	Off    int64  `json:"off,omitempty"`
	K      int    `json:"k,omitempty"`
}

type c04Scenario struct {
	File    string  `json:"file"`
	Blocks  int     `json:"blocks"`
	Len     int     `json:"len"`
	Readers int     `json:"readers"`
	Via     string  `json:"via"`
	Frag    int     `json:"frag"`
	Ops     []c04Op `json:"ops"`
}

func realStub(extra string) map[string]string {
	return map[string]string{
		"real":   "all go-unixfsnode packages; go-ipld-prime LinkSystem/traversal/selectors; go-codec-dagpb; sha2-256 multihash; boxo chunkers; boxo importer and HAMT (reference writers); Go runtime",
		"stub":   "block storage (SimStore behind StorageReadOpener/StorageWriteOpener instead of a blockstore/network); builder input reader (SimSource); goroutine choice (SimSched, C17 only)",
		"absent": "clock, timers, network: the library has none",
		"note":   extra,
	}
}

// openFile obtains the file node the way a user would.
func openFile(w *world.World, root cid.Cid, via int) (datamodel.Node, string, error) {
	n, err := w.LoadRoot(root)
	if err != nil {
		return nil, "", err
	}
	// w.Ctx is nil unless the scenario set one (callers without a context pass
	// the zero LinkContext)
	if via == 0 || root.Prefix().Codec != cid.DagProtobuf {
		ctx := w.Ctx
		if ctx == nil {
			ctx = context.Background()
		}
		fn, err := file.NewUnixFSFile(ctx, n, &w.LS)
		return fn, "file.NewUnixFSFile", err
	}
	if via == 2 {
		fn, err := w.LS.KnownReifiers["unixfs-preload"](ipld.LinkContext{Ctx: w.Ctx}, n, &w.LS)
		return fn, "unixfs-preload reifier", err
	}
	fn, err := unixfsnode.Reify(ipld.LinkContext{Ctx: w.Ctx}, n, &w.LS)
	return fn, "unixfsnode.Reify", err
}

func (c04) Run(ts *tape.Set, tier Tier) *Result {
	res := &Result{Execs: 1}
	shape := ts.T("shape")
	maxSize := 16 << 10
	if tier == Thorough {
		maxSize = 64 << 10
	}
	spec := gen.DrawFileSpec(shape, gen.FileOpts{MaxSize: maxSize, AllowOdd: true, AllowNoSizes: true})
	nReaders := 1 + shape.Pick(3, 3, 1)
	via := shape.Intn(3)
	fragMode := shape.Pick(2, 1, 1, 1)
	fragSeed := shape.Raw()
	maxOps := 60
	if tier == Thorough {
		maxOps = 200
	}
	nOps := 1 + shape.Intn(maxOps)
	secondNode := shape.Intn(3) == 2
	nodeReifier := shape.Intn(3) == 2

	st := store.New()
	root, _, err := gen.WriteFile(st, spec)
	if err != nil {
		res.Skipped, res.SkipReason = true, err.Error()
		return res
	}
	model, err := dagmodel.BuildFile(st, root)
	if err != nil {
		res.Skipped, res.SkipReason = true, "model: "+err.Error()
		return res
	}
	content := model.Content
	L := int64(len(content))
	bounds := model.Boundaries()
	for _, sp := range model.Spans {
		if sp.Cid.Prefix().MhType == 0 { // identity multihash: an inlined block
			res.probe("inline-identity-block")
			break
		}
	}
	sc := &c04Scenario{File: spec.String(), Blocks: len(model.Spans), Len: int(L), Readers: nReaders, Frag: fragMode}
	res.Scenario = sc
	if len(model.BlockSet()) < len(model.Spans) {
		res.probe("dedup-dag")
	}
	if model.MaxDepth >= 2 {
		res.probe("depth>=3")
	}

	st.Frag = fragFn(fragSeed, fragMode)
	w := newWorld(st, false, nodeReifier)
	if nodeReifier {
		res.probe("linksystem-with-node-reifier")
	}

	type rd struct {
		rs       io.ReadSeeker
		pos      int64
		stalled  int
		contRead bool // the previous op on this reader was a Read that returned data
	}
	var node datamodel.Node
	var readers []*rd
	// byte slices handed out by AsBytes stay the caller's: whatever the
	// library does afterwards (other reads, other files) must not change them
	type held struct {
		got  []byte
		want []byte
		op   int
	}
	var retained []held
	// a second, different file in the same process, read as a whole now and then
	other := gen.FileSpec{Writer: "builder", Size: 700 + int(fragSeed%900), Chunker: "size-64", Width: 3, Seed: fragSeed ^ 0x0bad}
	otherRoot, otherContent, otherErr := gen.WriteFile(st, other)
	var sig uint64
	var opErr error
	sawSeek, sawData := false, false
	lastReader := -1
	// a SLOPPY file that shares leaf blocks with the file under test and is
	// read first, in the same process: its root links to the same raw leaves
	// but claims wrong sizes for them (Tsize is not validated by anything).
	// Whatever the library makes of that file, it must not change what the
	// well-formed file's readers do afterwards.
	if fragSeed%3 == 0 {
		seen := map[string]bool{}
		tw := &gen.RawNode{Data: []byte{0x08, 0x02}, HasData: true}
		for _, sp := range model.Spans {
			if sp.Raw && !seen[sp.Cid.KeyString()] && len(tw.Links) < 24 {
				seen[sp.Cid.KeyString()] = true
				wrong := uint64(1 + (fragSeed>>8+uint64(len(tw.Links))*7)%5)
				if int64(wrong) == sp.End-sp.Start {
					wrong++
				}
				tw.Links = append(tw.Links, gen.RawLink{Hash: sp.Cid.Bytes(), HasHash: true, Name: "", HasName: true, Tsize: wrong, HasTsize: true})
			}
		}
		if len(tw.Links) > 0 {
			tb := tw.Encode()
			if tc, err := (cid.Prefix{Version: 1, Codec: cid.DagProtobuf, MhType: 0x12, MhLength: 32}).Sum(tb); err == nil {
				st.Put(tc, tb)
				_, _, _ = guard(func() {
					if tn, _, err := openFile(w, tc, via); err == nil {
						_, _ = tn.AsBytes()
						if lb, ok := tn.(datamodel.LargeBytesNode); ok {
							if rs, err := lb.AsLargeBytes(); err == nil {
								_, _ = rs.Seek(3, io.SeekStart)
								_, _ = rs.Read(make([]byte, 8))
								_, _ = rs.Seek(-1, io.SeekEnd)
							}
						}
					}
				})
				res.probe("sloppy-file-sharing-leaves-read-first")
			}
		}
	}

	panicked, site, pmsg := guard(func() {
		n, how, err := openFile(w, root, via)
		sc.Via = how
		if err != nil {
			opErr = fmt.Errorf("open: %w", err)
			return
		}
		node = n
		for i := 0; i < nReaders; i++ {
			src := node
			if secondNode && i == nReaders-1 && i > 0 {
				n2, _, err := openFile(w, root, via)
				if err != nil {
					opErr = fmt.Errorf("open second node: %w", err)
					return
				}
				src = n2
			}
			lb, ok := src.(datamodel.LargeBytesNode)
			if !ok {
				opErr = fmt.Errorf("node %T is not a LargeBytesNode", src)
				return
			}
			rs, err := lb.AsLargeBytes()
			if err != nil {
				opErr = fmt.Errorf("AsLargeBytes: %w", err)
				return
			}
			readers = append(readers, &rd{rs: rs})
		}
		ops := ts.T("ops")
		for i := 0; i < nOps && res.Violation == nil; i++ {
			ri := ops.Intn(nReaders)
			kind := ops.Pick(10, 6, 4, 4, 1, 1, 1) // Read, SeekStart, SeekCurrent, SeekEnd, node.AsBytes, replace reader, drain through io helpers
			a := ops.Raw()
			b := ops.Raw()
			r := readers[ri]
			if kind == 4 {
				// a whole-value read of the shared node in the middle of the
				// history: it must return the content and must not disturb any reader
				sc.Ops = append(sc.Ops, c04Op{Reader: -1, Op: "node.AsBytes"})
				all, err := node.AsBytes()
				sig = fnvMix(sig, 3, boolU(err == nil))
				if err != nil {
					res.fail("c04/asbytes-error", "op %d: AsBytes on the node returned error %v", i, err)
					return
				}
				if !bytes.Equal(all, content) {
					res.fail("c04/asbytes-wrong-bytes", "op %d: AsBytes on the node returned %d bytes that differ from the content (%d bytes)", i, len(all), L)
					return
				}
				res.probe("node-asbytes-mid-history")
				retained = append(retained, held{all, content, i})
				if otherErr == nil && a%2 == 0 {
					if on, _, err := openFile(w, otherRoot, via); err == nil {
						if ob, err := on.AsBytes(); err == nil {
							retained = append(retained, held{ob, otherContent, i})
							res.probe("second-file-read-in-between")
						}
					}
				}
				continue
			}
			if kind == 5 {
				// the client drops its reader and asks the node for a new one
				sc.Ops = append(sc.Ops, c04Op{Reader: ri, Op: "new reader"})
				rs, err := node.(datamodel.LargeBytesNode).AsLargeBytes()
				if err != nil {
					res.fail("c04/open-failed", "op %d: AsLargeBytes: %v", i, err)
					return
				}
				readers[ri] = &rd{rs: rs}
				res.probe("reader-replaced-mid-history")
				continue
			}
			if kind == 6 {
				// ---- the rest of the file through the standard helpers. They
				// prefer a reader's optional fast paths (io.WriterTo for io.Copy;
				// io.ReaderAt is probed too), which must behave like Read does
				from := r.pos
				if from > L {
					from = L
				}
				want := content[from:]
				var got []byte
				var err error
				if a%4 == 3 && r.pos < L {
					// io.Copy into a destination that fails part-way, then the
					// caller carries on with the SAME reader: wherever the reader
					// says it is afterwards, the bytes it hands out next are the
					// bytes at that position
					limit := int(b % uint64(L-r.pos+1))
					fw := &failingWriter{limit: limit}
					_, cerr := io.Copy(fw, r.rs)
					buf := make([]byte, 1+int(b>>32)%64)
					n, rerr := r.rs.Read(buf)
					p2, serr := r.rs.Seek(0, io.SeekCurrent)
					sc.Ops = append(sc.Ops, c04Op{Reader: ri, Op: "io.Copy(failing writer)+Read", K: limit})
					sig = fnvMix(sig, 6, uint64(ri), boolU(cerr == nil), boolU(rerr == nil))
					res.probe("copy-into-failing-writer-then-read")
					if !bytes.Equal(fw.got, content[r.pos:r.pos+int64(len(fw.got))]) {
						res.fail("c04/drain-wrong-bytes", "op %d: io.Copy from offset %d delivered %d bytes that differ from the content there", i, r.pos, len(fw.got))
						return
					}
					if serr != nil || (rerr != nil && rerr != io.EOF) {
						res.fail("c04/read-error", "op %d: after io.Copy into a failing writer, Read returned (%d, %v) and Seek(0, SeekCurrent) (%d, %v)", i, n, rerr, p2, serr)
						return
					}
					start := p2 - int64(n)
					bad := n < 0 || start < 0 || (p2 > L && n > 0)
					if !bad && n > 0 {
						bad = !bytes.Equal(buf[:n], content[start:p2])
					}
					if bad {
						res.fail("c04/read-wrong-bytes", "op %d: after io.Copy into a failing writer (it accepted %d bytes from offset %d) a Read returned %d bytes and the reader then reports position %d; those bytes are not content[%d:%d]", i, len(fw.got), r.pos, n, p2, p2-int64(n), p2)
						return
					}
					r.pos = p2
					r.stalled, r.contRead = 0, false
					lastReader = ri
					continue
				}
				how := []string{"io.Copy", "io.ReadAll", "io.Copy(plain writer)"}[a%3]
				if ra, ok := r.rs.(io.ReaderAt); ok && L > 0 {
					off := int64(b % uint64(L))
					buf := make([]byte, 1+int(b>>32)%64)
					n, rerr := ra.ReadAt(buf, off)
					if n < 0 || n > len(buf) || !bytes.Equal(buf[:n], content[off:off+int64(n)]) || (rerr != nil && rerr != io.EOF) || (n < len(buf) && off+int64(n) != L) {
						res.fail("c04/readat-wrong", "op %d: ReadAt(%d bytes, %d) returned (%d, %v) inconsistent with the content (len %d)", i, len(buf), off, n, rerr, L)
						return
					}
				}
				switch a % 3 {
				case 0:
					var bb bytes.Buffer
					_, err = io.Copy(&bb, r.rs)
					got = bb.Bytes()
				case 1:
					got, err = io.ReadAll(r.rs)
				default:
					var bb bytes.Buffer
					_, err = io.Copy(struct{ io.Writer }{&bb}, r.rs)
					got = bb.Bytes()
				}
				sc.Ops = append(sc.Ops, c04Op{Reader: ri, Op: how})
				sig = fnvMix(sig, 5, uint64(ri), a%3, boolU(err == nil))
				res.probe("drained-through-io-helpers")
				if r.pos > L {
					res.probe("drained-from-past-end")
				}
				if err != nil {
					res.fail("c04/drain-error", "op %d: %s from offset %d (len %d) failed: %v", i, how, r.pos, L, err)
					return
				}
				if !bytes.Equal(got, want) {
					res.fail("c04/drain-wrong-bytes", "op %d: %s from offset %d returned %d bytes, the content from there is %d bytes (or differs)", i, how, r.pos, len(got), len(want))
					return
				}
				if r.pos < L {
					r.pos = L
				}
				r.stalled, r.contRead = 0, false
				lastReader = ri
				continue
			}
			if kind == 0 {
				// ---- Read(k)
				var k int
				switch a % 8 {
				case 0, 1:
					k = 1 + int(b%16)
				case 2: // exactly to the next boundary
					k = int(nextBoundary(bounds, r.pos) - r.pos)
					if k <= 0 {
						k = 1
					}
				case 3: // across the next boundary
					k = int(nextBoundary(bounds, r.pos)-r.pos) + 1 + int(b%9)
				case 4:
					k = 0
				case 5:
					k = int(L) + 10
				case 6:
					k = 1
				default:
					k = 1 + int(b%512)
				}
				if k > 1<<16 {
					k = 1 << 16
				}
				sc.Ops = append(sc.Ops, c04Op{Reader: ri, Op: "Read", K: k})
				buf := make([]byte, k)
				n, err := r.rs.Read(buf)
				sig = fnvMix(sig, 1, uint64(ri), a%8, boolU(err == nil), boolU(n > 0))
				if lastReader >= 0 && lastReader != ri && r.pos < L && !isBoundary(bounds, r.pos) {
					res.probe("readers-interleaved-mid-chunk")
				}
				lastReader = ri
				if n < 0 || n > k {
					res.fail("c04/read-count-out-of-range", "op %d: Read(%d) at %d returned n=%d", i, k, r.pos, n)
					return
				}
				switch {
				case k == 0:
					if err != nil && err != io.EOF {
						res.fail("c04/read-error", "op %d: Read(0) at %d returned error %v", i, r.pos, err)
					}
					if err == io.EOF && r.pos < L {
						res.fail("c04/early-eof", "op %d: Read(0) at %d < len %d returned EOF", i, r.pos, L)
					}
				case r.pos >= L:
					res.probe("read-at-eof")
					if n != 0 || err != io.EOF {
						res.fail("c04/eof-not-reported", "op %d: Read(%d) at %d >= len %d returned (%d, %v), want (0, EOF)", i, k, r.pos, L, n, err)
					}
				default:
					if int64(n) > L-r.pos {
						res.fail("c04/read-past-end", "op %d: Read(%d) at %d returned %d bytes, only %d remain", i, k, r.pos, n, L-r.pos)
						return
					}
					if !bytes.Equal(buf[:n], content[r.pos:r.pos+int64(n)]) {
						res.fail("c04/read-wrong-bytes", "op %d: Read(%d) at %d returned %d bytes that differ from content[%d:%d]", i, k, r.pos, n, r.pos, r.pos+int64(n))
						return
					}
					if err != nil && !(err == io.EOF && r.pos+int64(n) == L) {
						if err == io.EOF {
							res.fail("c04/early-eof", "op %d: Read(%d) at %d returned EOF after %d bytes but len is %d", i, k, r.pos, n, L)
						} else {
							res.fail("c04/read-error", "op %d: Read(%d) at %d returned error %v", i, k, r.pos, err)
						}
						return
					}
					if n == 0 {
						r.stalled++
						if r.stalled >= 3 {
							res.fail("c04/no-progress", "op %d: three consecutive Reads at %d < len %d returned no data", i, r.pos, L)
						}
					} else {
						r.stalled = 0
						sawData = true
						if r.contRead && atInteriorEdge(model, r.pos) {
							res.probe("read-crosses-interior-boundary")
						}
					}
					r.contRead = n > 0
					r.pos += int64(n)
				}
				continue
			}
			// ---- Seek
			var target int64
			switch a % 10 {
			case 0:
				target = 0
			case 1, 2, 3:
				target = bounds[int(b%uint64(len(bounds)))] + int64((b>>20)%3) - 1
			case 4:
				target = L + int64((b>>20)%3) - 1
			case 5:
				target = L + 1 + int64(b%100)
			case 6, 7:
				target = -1 - int64(b%10)
				if kind == 1 && b%7 == 0 {
					target = []int64{math.MinInt64, math.MinInt64 + 1, -1 << 62, -1 << 32, -1 << 31}[(b>>8)%5]
					res.probe("extreme-negative-seek")
				}
			default:
				target = int64(b % uint64(L+1))
			}
			var off int64
			var whence int
			var wname string
			switch kind {
			case 1:
				whence, off, wname = io.SeekStart, target, "SeekStart"
			case 2:
				whence, off, wname = io.SeekCurrent, target-r.pos, "SeekCurrent"
			default:
				whence, off, wname = io.SeekEnd, target-L, "SeekEnd"
			}
			sc.Ops = append(sc.Ops, c04Op{Reader: ri, Op: wname, Off: off})
			sawSeek = true
			got, err := r.rs.Seek(off, whence)
			sig = fnvMix(sig, 2, uint64(ri), uint64(kind), a%10, boolU(err == nil))
			r.stalled = 0
			r.contRead = false
			if target < 0 {
				res.probe("negative-seek")
				if err == nil {
					res.fail("c04/negative-seek-accepted", "op %d: %s(%d) from %d targets offset %d < 0 but returned (%d, nil)", i, wname, off, r.pos, target, got)
					return
				}
				// the reader must stay usable and consistent
				p, err2 := r.rs.Seek(0, io.SeekCurrent)
				if err2 != nil || p < 0 {
					res.fail("c04/unusable-after-failed-seek", "op %d: after failed %s(%d), Seek(0,SeekCurrent) returned (%d, %v)", i, wname, off, p, err2)
					return
				}
				r.pos = p
				continue
			}
			if err != nil {
				res.fail("c04/seek-error", "op %d: %s(%d) from %d to %d (len %d) returned error %v", i, wname, off, r.pos, target, L, err)
				return
			}
			if got != target {
				res.fail("c04/seek-wrong-offset", "op %d: %s(%d) from %d returned %d, want %d (len %d)", i, wname, off, r.pos, got, target, L)
				return
			}
			if isBoundary(bounds, target) && target > 0 && target < L {
				res.probe("seek-on-boundary")
				if kind == 3 {
					res.probe("seek-end-relative-on-boundary")
				}
			}
			if target > L {
				res.probe("seek-past-end")
			}
			r.pos = target
		}
	})
	if !panicked && res.Violation == nil {
		for _, h := range retained {
			if !bytes.Equal(h.got, h.want) {
				res.fail("c04/returned-bytes-changed-later", "the byte slice returned by AsBytes at op %d no longer holds the content at the end of the history: the library kept writing to memory it had handed out", h.op)
				break
			}
		}
	}
	res.Events = st.Seq()
	res.Sig = sigOfLog(sig, st.Log)
	res.Excerpt = excerpt(st.Log, 12)
	res.NonTrivial = len(model.Spans) >= 2 && sawSeek && sawData
	if panicked {
		res.Violation = &Violation{Class: "c04/panic@" + site, Msg: "panic: " + pmsg}
		return res
	}
	if opErr != nil && res.Violation == nil {
		res.fail("c04/open-failed", "%v", opErr)
	}
	return res
}

func boolU(b bool) uint64 {
	if b {
		return 1
	}
	return 0
}

func nextBoundary(bounds []int64, pos int64) int64 {
	best := int64(-1)
	for _, b := range bounds {
		if b > pos && (best < 0 || b < best) {
			best = b
		}
	}
	if best < 0 {
		return pos
	}
	return best
}

func isBoundary(bounds []int64, p int64) bool {
	for _, b := range bounds {
		if b == p {
			return true
		}
	}
	return false
}

// atInteriorEdge reports whether p is the end of a non-leaf child of the
// root with content following it: a sequential read continuing at p has just
// crossed from one interior subtree into the next. (One Read call never spans
// two children, so the crossing shows as consecutive Reads.)
func atInteriorEdge(m *dagmodel.File, p int64) bool {
	for _, s := range m.Spans {
		if s.Depth == 1 && !s.Leaf && s.End == p && s.Start < p && p < int64(len(m.Content)) {
			return true
		}
	}
	return false
}

// failingWriter accepts limit bytes and then fails.
type failingWriter struct {
	limit int
	got   []byte
}

func (f *failingWriter) Write(p []byte) (int, error) {
	room := f.limit - len(f.got)
	if room <= 0 {
		return 0, fmt.Errorf("destination full (injected)")
	}
	if len(p) > room {
		f.got = append(f.got, p[:room]...)
		return room, fmt.Errorf("destination full (injected)")
	}
	f.got = append(f.got, p...)
	return len(p), nil
}
