package checks

import (
	"fmt"
	"io"
	"strings"

	"github.com/ipfs/go-cid"
	unixfsnode "github.com/ipfs/go-unixfsnode"
	"github.com/ipfs/go-unixfsnode/iter"
	"github.com/ipld/go-ipld-prime/datamodel"
	"github.com/ipld/go-ipld-prime/traversal"

	"verif/sim/dagmodel"
	"verif/sim/gen"
	"verif/sim/store"
	"verif/sim/tape"
	"verif/sim/world"
)

// C20 — blocks are requested in deterministic depth-first link order.
type c20 struct{}

func init() { register(c20{}) }

func (c20) ID() string    { return "C20" }
func (c20) Level() string { return "exploration" }
func (c20) Technique() string {
	return "deterministic simulation: the ordered request log of the simulated block store for a full read / preload / iteration / length / path traversal, repeated on cold nodes in one process, is compared with an independent depth-first link-order walk of the stored blocks"
}
func (c20) Rule() string {
	return "one evaluation = one operation on a fresh cold node over a seeded DAG (each operation is repeated R=3 times in-process so that any dependence on Go map iteration order is re-drawn); the list of first requests per distinct block must equal the model's pre-order walk on every repetition; non-trivial = the entity has >= 3 blocks; distinct = distinct (operation, DAG shape class, seam event sequence) signature"
}
func (c20) Assumptions() []string {
	return []string{
		"reference order = pre-order, link-order walk of the stored blocks parsed with boxo merkledag/unixfs, first occurrence per distinct block",
		"for Length() and iteration of a sharded directory the walk covers shard blocks only (entries are not loaded)",
		"the root block is loaded by the caller and is the first request by construction",
	}
}
func (c20) RealStub() map[string]string {
	return realStub("Go map iteration order inside the library cannot be owned by the simulator; it is re-drawn by repeating each operation in-process and the oracle is a fixed order, so any dependence shows as a mismatch on some repetition")
}
func (c20) Runs(t Tier) int {
	if t == Thorough {
		return 150000
	}
	return 2500
}
func (c20) RecordWidths() map[string]int { return nil }
func (c20) RequiredProbes() []string {
	return []string{"file-read", "file-preload", "dir-iterate", "dir-iterate-typed", "dir-length", "dir-preload", "path-walk", "hamt-depth>=3", "file-depth>=3", "dedup-dag", "path-through-hamt"}
}

type c20Scenario struct {
	Kind   string `json:"kind"`
	Spec   string `json:"spec"`
	Op     string `json:"op"`
	Blocks int    `json:"blocks"`
	Want   string `json:"want_order_head,omitempty"`
	Got    string `json:"got_order_head,omitempty"`
}

func firstRequests(cs []cid.Cid) []cid.Cid {
	seen := map[string]bool{}
	var out []cid.Cid
	for _, c := range cs {
		if !seen[c.KeyString()] {
			seen[c.KeyString()] = true
			out = append(out, c)
		}
	}
	return out
}

func orderHead(cs []cid.Cid, n int) string {
	var ss []string
	for i, c := range cs {
		if i >= n {
			ss = append(ss, "…")
			break
		}
		ss = append(ss, shortCid(c))
	}
	return strings.Join(ss, " ")
}

func (c20) Run(ts *tape.Set, tier Tier) *Result {
	res := &Result{}
	shape := ts.T("shape")
	kind := shape.Pick(3, 3, 2) // file, dir, tree
	st := store.New()
	sc := &c20Scenario{}
	res.Scenario = sc
	var want []cid.Cid
	var op func(w *world.World) error
	fragMode := shape.Pick(2, 1, 1, 1)
	fragSeed := shape.Raw()
	nodeReifier := shape.Intn(3) == 2
	switch kind {
	case 0:
		maxSize := 8 << 10
		if tier == Thorough {
			maxSize = 48 << 10
		}
		spec := gen.DrawFileSpec(shape, gen.FileOpts{MaxSize: maxSize, AllowOdd: true})
		which := shape.Intn(3)
		bufSeed := shape.Raw()
		root, _, err := gen.WriteFile(st, spec)
		if err != nil {
			res.Skipped, res.SkipReason = true, err.Error()
			return res
		}
		m, err := dagmodel.BuildFile(st, root)
		if err != nil {
			res.Skipped, res.SkipReason = true, "model: "+err.Error()
			return res
		}
		want = m.DFSFirst()
		sc.Kind, sc.Spec = "file", spec.String()
		if m.MaxDepth >= 2 {
			res.probe("file-depth>=3")
		}
		if len(m.BlockSet()) < len(m.Spans) {
			res.probe("dedup-dag")
		}
		switch which {
		case 0:
			sc.Op = "AsBytes"
			res.probe("file-read")
			op = func(w *world.World) error {
				n, _, err := openFile(w, root, 1)
				if err != nil {
					return err
				}
				_, err = n.AsBytes()
				return err
			}
		case 1:
			sc.Op = "Read loop"
			res.probe("file-read")
			op = func(w *world.World) error {
				n, _, err := openFile(w, root, 0)
				if err != nil {
					return err
				}
				rs, err := n.(datamodel.LargeBytesNode).AsLargeBytes()
				if err != nil {
					return err
				}
				br := tape.NewSplitMix(bufSeed)
				_, err, _ = readSeq(rs, func() int { return 1 + int(br.Next()%200) }, 4*len(m.Content)+64)
				if err == io.EOF {
					err = nil
				}
				return err
			}
		default:
			sc.Op = "unixfs-preload reify"
			res.probe("file-preload")
			op = func(w *world.World) error {
				_, err := w.ReifyPreload(root)
				return err
			}
		}
	case 1:
		maxN := 300
		if tier == Thorough {
			maxN = 1200
		}
		spec := gen.DrawDirSpec(shape, gen.DirOpts{MaxN: maxN})
		which := shape.Intn(5)
		root, entries, err := gen.WriteShardedDir(st, spec)
		if err != nil {
			res.Skipped, res.SkipReason = true, err.Error()
			return res
		}
		m, err := dagmodel.BuildDir(st, root)
		if err != nil {
			res.Skipped, res.SkipReason = true, "model: "+err.Error()
			return res
		}
		if len(m.Entries) != len(entries) {
			res.Skipped, res.SkipReason = true, "stored directory does not hold the entries given to the writer"
			return res
		}
		want = m.ShardDFS()
		sc.Kind, sc.Spec = "dir", spec.String()
		if m.MaxDepth >= 2 {
			res.probe("hamt-depth>=3")
		}
		switch which {
		case 0:
			sc.Op = "MapIterator"
			res.probe("dir-iterate")
			op = func(w *world.World) error {
				n, err := w.Reify(root)
				if err != nil {
					return err
				}
				it := n.MapIterator()
				for steps := 0; !it.Done(); steps++ {
					if _, _, err := it.Next(); err != nil {
						return err
					}
					if steps > 4*len(entries)+64 {
						return fmt.Errorf("iteration does not terminate")
					}
				}
				return nil
			}
		case 1:
			sc.Op = "Length"
			res.probe("dir-length")
			op = func(w *world.World) error {
				n, err := w.Reify(root)
				if err != nil {
					return err
				}
				if l := n.Length(); l != int64(len(entries)) {
					return fmt.Errorf("Length() = %d, directory has %d entries", l, len(entries))
				}
				return nil
			}
		case 4:
			// the typed accessor: Iterator() of the directory node (it has no
			// error return, so it is only judged here, without faults: every
			// entry once, shards requested in the same depth-first order)
			sc.Op = "typed Iterator()"
			res.probe("dir-iterate-typed")
			op = func(w *world.World) error {
				n, err := w.Reify(root)
				if err != nil {
					return err
				}
				ni, ok := n.(interface{ Iterator() *iter.UnixFSDir__Itr })
				if !ok {
					return fmt.Errorf("reified directory %T has no typed Iterator()", n)
				}
				it := ni.Iterator()
				seen := map[string]bool{}
				for steps := 0; !it.Done(); steps++ {
					k, v := it.Next()
					if k == nil || v == nil {
						return fmt.Errorf("typed iterator yielded a nil pair at step %d of a complete directory", steps)
					}
					if seen[k.String()] {
						return fmt.Errorf("typed iterator yielded %q twice", k.String())
					}
					seen[k.String()] = true
					if steps > 4*len(entries)+64 {
						return fmt.Errorf("iteration does not terminate")
					}
				}
				if len(seen) != len(entries) {
					return fmt.Errorf("typed iterator yielded %d entries, the directory has %d", len(seen), len(entries))
				}
				return nil
			}
		case 2:
			sc.Op = "unixfs-preload reify"
			res.probe("dir-preload")
			op = func(w *world.World) error {
				_, err := w.ReifyPreload(root)
				return err
			}
		default:
			sc.Op = "entity selector walk"
			res.probe("dir-iterate")
			op = func(w *world.World) error {
				rn, err := w.LoadRoot(root)
				if err != nil {
					return err
				}
				return walkMatching(w, rn, unixfsnode.MatchUnixFSEntitySelector.Node(), unixfsnode.BytesConsumingMatcher)
			}
		}
	default:
		tree, err := gen.WriteTree(st, ts.T("tree"), gen.TreeOpts{MaxDepth: 3, MaxFileSize: 1200})
		if err != nil {
			res.Skipped, res.SkipReason = true, err.Error()
			return res
		}
		paths, nodes := gen.Paths(tree)
		if len(paths) == 0 {
			res.Skipped, res.SkipReason = true, "empty tree"
			return res
		}
		pi := shape.Intn(len(paths))
		tsel := shape.Intn(3)
		segs, target := paths[pi], nodes[pi]
		blocks, tgt, err := dagmodel.PathBlocks(st, tree.Cid, segs)
		if err != nil || !tgt.Equals(target.Cid) {
			res.Skipped, res.SkipReason = true, "model cannot resolve the path"
			return res
		}
		want = blocks
		// what the target selector adds after the path
		var targetSel = unixfsnode.MatchUnixFSSelector
		var visit traversal.VisitFn = func(traversal.Progress, datamodel.Node) error { return nil }
		tname := "match"
		if tsel > 0 {
			if tsel == 1 {
				targetSel, tname = unixfsnode.MatchUnixFSPreloadSelector, "preload"
			} else {
				targetSel, tname, visit = unixfsnode.MatchUnixFSEntitySelector, "entity", unixfsnode.BytesConsumingMatcher
			}
			switch target.Kind {
			case "file":
				fm, err := dagmodel.BuildFile(st, target.Cid)
				if err != nil {
					res.Skipped, res.SkipReason = true, "model: "+err.Error()
					return res
				}
				want = append(want, fm.DFSFirst()[1:]...)
			case "hamt":
				dm, err := dagmodel.BuildDir(st, target.Cid)
				if err != nil {
					res.Skipped, res.SkipReason = true, "model: "+err.Error()
					return res
				}
				want = append(want, dm.ShardDFS()[1:]...)
			}
		}
		want = firstRequests(want)
		pathStr := strings.Join(segs, "/")
		sc.Kind, sc.Spec, sc.Op = "tree", fmt.Sprintf("root=%s nodes=%d", tree.Kind, len(paths)+1), fmt.Sprintf("path %q + %s", pathStr, tname)
		res.probe("path-walk")
		cur := tree
		for _, s := range segs {
			if cur.Kind == "hamt" {
				res.probe("path-through-hamt")
				break
			}
			for _, ch := range cur.Children {
				if ch.Name == s {
					cur = ch
					break
				}
			}
		}
		op = func(w *world.World) error {
			rn, err := w.LoadRoot(tree.Cid)
			if err != nil {
				return err
			}
			return walkMatching(w, rn, unixfsnode.UnixFSPathSelectorBuilder(pathStr, targetSel, false), visit)
		}
	}
	sc.Blocks = len(want)
	res.NonTrivial = len(want) >= 3
	var sig uint64
	for rep := 0; rep < 3 && res.Violation == nil; rep++ {
		st.ResetLog()
		st.TrackGIDs = true
		st.ReadPolicy = nil
		st.Frag = fragFn(fragSeed+uint64(rep), fragMode)
		w := newWorld(st, false, nodeReifier)
		if !nodeReifier && fragSeed%5 == 2 {
			w = newDerivedWorld(st, false)
			res.probe("derived-link-system")
		}
		var opErr error
		panicked, site, pmsg := guard(func() { opErr = op(w) })
		res.Execs++
		res.Events += len(st.Log)
		if rep == 0 {
			sig = sigOfLog(fnvMix(0, uint64(kind), tape.HashString(sc.Op)), st.Log)
		}
		if panicked {
			res.Violation = &Violation{Class: "c20/panic@" + site, Msg: sc.Op + " panicked: " + pmsg}
			break
		}
		if opErr != nil {
			res.Skipped, res.SkipReason = true, "fault-free operation failed: "+opErr.Error()
			return res
		}
		if g := st.ReaderGoroutines(); g > 1 {
			res.Violation = &Violation{Class: "c20/requests-from-several-goroutines/" + sc.Kind, Msg: fmt.Sprintf("%s issued its block requests from %d goroutines: their order is decided by the Go scheduler, not by the DAG", sc.Op, g)}
			res.Excerpt = excerpt(st.Log, 12)
			break
		}
		got := firstRequests(st.ReadCids)
		same := len(got) == len(want)
		if same {
			for i := range got {
				if !got[i].Equals(want[i]) {
					same = false
					break
				}
			}
		}
		if !same {
			i := 0
			for i < len(got) && i < len(want) && got[i].Equals(want[i]) {
				i++
			}
			sc.Want, sc.Got = orderHead(want[i:], 6), orderHead(got[i:], 6)
			cls := "c20/order-mismatch"
			if len(got) != len(want) {
				cls = "c20/block-set-mismatch"
			}
			res.Violation = &Violation{Class: cls + "/" + sc.Kind, Msg: fmt.Sprintf("%s (repetition %d): request order diverges from the depth-first link-order walk at position %d of %d (requested %d distinct blocks); want %s, got %s", sc.Op, rep, i, len(want), len(got), sc.Want, sc.Got)}
			res.Excerpt = excerpt(st.Log, 12)
		}
	}
	res.Sig = sig
	return res
}
