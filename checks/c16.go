package checks

import (
	"fmt"
	"io"
	"os"
	"path/filepath"
	"strings"

	"github.com/ipfs/boxo/ipld/merkledag"
	"github.com/ipfs/go-cid"
	"github.com/ipfs/go-unixfsnode/data/builder"
	quickbuilder "github.com/ipfs/go-unixfsnode/data/builder/quick"
	"github.com/ipld/go-ipld-prime"
	cidlink "github.com/ipld/go-ipld-prime/linking/cid"
	mh "github.com/multiformats/go-multihash"

	"verif/sim/gen"
	"verif/sim/source"
	"verif/sim/store"
	"verif/sim/tape"
	"verif/sim/world"
)

// C16 — builders store children before parents and fail cleanly when a write fails.
type c16 struct{}

func init() { register(c16{}) }

func (c16) ID() string    { return "C16" }
func (c16) Level() string { return "fault_enumeration" }
func (c16) Technique() string {
	return "deterministic simulation with write-side fault injection and crash/restart: per seeded build, the commit-time invariant (all produced children durable) is checked on every prefix of the write sequence, then every step of the write protocol is failed in turn (k-th open, k-th write torn after j bytes, k-th commit), the store is crashed at every write event and restarted on its durable state, the disk is filled at several sizes, and the input stream is failed at several bytes"
}
func (c16) Rule() string {
	return "one evaluation = one complete build (BuildUnixFSFile, BuildUnixFSSymlink, BuildUnixFSDirectory plain/empty/auto-sharded, BuildUnixFSShardedDirectory, BuildUnixFSRecursive over a temp tree rooted at a directory, a regular file or a symlink, quick builder) against a simulated store under one fault plan; per seeded build the plan space {k-th open fails, k-th write torn, k-th commit fails: every k, also with well-known error values} + {crash at every write event, restart on the durable state, rebuild} + {retry through the same link system after a transient fault} + {ENOSPC at 4 sizes} + {source error at 4 offsets} is enumerated (strided above 150/400 steps, root block always included); non-trivial = the fault fired and the build had >= 2 blocks; distinct = distinct (builder, fault kind, position class first/middle/last, outcome, seam event sequence) signature"
}
func (c16) Assumptions() []string {
	return []string{
		"links to caller-supplied entries (the set E) are exempt from the children-first invariant: the builder did not produce them",
		"the quick builder's API panics on failure; only its fault-free write order is judged",
		"BuildUnixFSRecursive reads a real temporary directory through package os; no faults are injected on that side",
		"blocks are parsed for links with boxo merkledag (dag-pb) independently of the code under test; raw blocks have no links",
	}
}
func (c16) RealStub() map[string]string {
	return realStub("write protocol = StorageWriteOpener -> Write* -> commit(link); a crash freezes the store, drops un-committed buffers and hands the durable map to a fresh store (restart)")
}
func (c16) Runs(t Tier) int {
	if t == Thorough {
		return 3000
	}
	return 320
}
func (c16) RecordWidths() map[string]int { return nil }
func (c16) RequiredProbes() []string {
	return []string{"file-build", "symlink-build", "plain-dir-build", "sharded-dir-build", "auto-sharded-dir-build", "recursive-build", "empty-directory", "recursive-rooted-at-file", "retry-after-transient-fault", "rebuild-after-crash", "well-known-error-value", "quick-builder", "fault-on-root-commit", "torn-write", "crash-between-child-and-parent", "enospc", "source-error", "multi-level-file", "nested-shards", "empty-file"}
}

type c16Scenario struct {
	Builder string `json:"builder"`
	Spec    string `json:"spec"`
	Writes  int    `json:"write_events"`
	Blocks  int    `json:"blocks"`
	Plans   int    `json:"fault_plans"`
	Failed  string `json:"failed_plan,omitempty"`
}

type wplan struct {
	what    string // open | torn | commit | crash | enospc | source
	k       int
	after   int
	flavour int // see flavourErr
}

func (p wplan) String() string {
	switch p.what {
	case "torn":
		return fmt.Sprintf("write #%d torn after %d bytes", p.k, p.after)
	case "crash":
		return fmt.Sprintf("crash at write event %d", p.k)
	case "enospc":
		return fmt.Sprintf("disk full after %d bytes", p.k)
	case "source":
		return fmt.Sprintf("source read error at byte %d", p.k)
	case "readonly":
		return "link system without a StorageWriteOpener (read-only storage)"
	}
	s := fmt.Sprintf("%s #%d fails", p.what, p.k)
	if p.flavour > 0 {
		s += " with " + []string{"", "io.ErrUnexpectedEOF", "*fs.PathError{fs.ErrNotExist}", "wrapped context.DeadlineExceeded", "traversal.SkipMe{}", "io.EOF", "context.Canceled", "an error wrapping io.EOF", "*fs.PathError{EEXIST}"}[p.flavour]
	}
	return s
}

// blockLinks parses the links of a stored block.
func blockLinks(c cid.Cid, data []byte) ([]cid.Cid, error) {
	if c.Prefix().Codec != cid.DagProtobuf {
		return nil, nil
	}
	pn, err := merkledag.DecodeProtobuf(data)
	if err != nil {
		return nil, err
	}
	var out []cid.Cid
	for _, l := range pn.Links() {
		out = append(out, l.Cid)
	}
	return out, nil
}

func (c16) Run(ts *tape.Set, tier Tier) *Result {
	res := &Result{}
	shape := ts.T("shape")
	which := shape.Pick(5, 1, 2, 3, 1, 2, 1) // file symlink plaindir shardeddir autosharded recursive quick
	if tier == Quick && which == 4 && shape.Intn(3) != 0 {
		which = 3
	} else if which != 4 {
		shape.Skip(0)
	}
	sc := &c16Scenario{}
	res.Scenario = sc

	E := map[string]bool{}
	var preload []struct {
		c cid.Cid
		b []byte
	}
	var content []byte
	hasSource := false
	var run func(ls *ipld.LinkSystem, src io.Reader) (ipld.Link, uint64, error)
	var cleanup func()
	width := 174
	judgeFaults := true

	scratch := store.New() // only used to mint entry targets
	mkEntries := func(names []string, absentEvery int) (map[string]cid.Cid, []string) {
		ents := map[string]cid.Cid{}
		for i, n := range names {
			c := gen.EntryTarget(scratch, n)
			ents[n] = c
			E[c.KeyString()] = true
			if absentEvery == 0 || i%absentEvery != 0 {
				b, _ := scratch.Get(c)
				preload = append(preload, struct {
					c cid.Cid
					b []byte
				}{c, b})
			}
		}
		return ents, names
	}

	switch which {
	case 0:
		spec := gen.DrawFileSpec(shape, gen.FileOpts{MaxSize: 3 << 10, OnlyBuilder: true})
		if tier == Quick && spec.Size > 1500 {
			spec.Size = spec.Size % 1500
		}
		// every plan rebuilds the whole file: keep it to a few hundred blocks
		var csz int
		if n, _ := fmt.Sscanf(spec.Chunker, "size-%d", &csz); n == 1 && csz > 0 {
			lim := 250
			if tier == Thorough {
				lim = 600
			}
			if spec.Size/csz > lim {
				spec.Size = lim*csz + spec.Size%csz
			}
		}
		content = gen.Content(spec)
		hasSource = true
		width = spec.Width
		srcMode := source.Mode(shape.Intn(int(source.NModes)))
		srcSeed := shape.Raw()
		sc.Builder, sc.Spec = "BuildUnixFSFile", spec.String()+" source="+srcMode.String()
		res.probe("file-build")
		if len(content) == 0 {
			res.probe("empty-file")
		}
		run = func(ls *ipld.LinkSystem, src io.Reader) (ipld.Link, uint64, error) {
			if src == nil {
				src = source.New(content, srcMode, srcSeed)
			}
			return builder.BuildUnixFSFile(src, spec.Chunker, ls)
		}
	case 1:
		target := []string{"", "a", "../x/y", strings.Repeat("p/", 40)}[shape.Intn(4)]
		sc.Builder, sc.Spec = "BuildUnixFSSymlink", fmt.Sprintf("target=%q", target)
		res.probe("symlink-build")
		run = func(ls *ipld.LinkSystem, _ io.Reader) (ipld.Link, uint64, error) {
			return builder.BuildUnixFSSymlink(target, ls)
		}
	case 2, 3, 4:
		dspec := gen.DrawDirSpec(shape, gen.DirOpts{MaxN: 120, OnlyBuilder: true})
		absentEvery := []int{0, 2, 3}[shape.Intn(3)]
		if which == 4 {
			// enough entries to cross the auto-shard threshold (262144 bytes of
			// names + CIDs): long names keep the count manageable
			dspec.N = 1500
			dspec.Mined = 0
		}
		names := gen.Names(dspec)
		if which == 2 && dspec.Seed%5 == 0 {
			names = nil // an empty directory
			res.probe("empty-directory")
		}
		if which == 4 {
			for i := range names {
				names[i] = names[i] + "-" + strings.Repeat("n", 150)
			}
		}
		ents, names := mkEntries(names, absentEvery)
		lnks, err := gen.PBLinks(names, ents, nil)
		if err != nil {
			res.Skipped, res.SkipReason = true, err.Error()
			return res
		}
		switch which {
		case 2:
			sc.Builder, sc.Spec = "BuildUnixFSDirectory", fmt.Sprintf("plain entries=%d absent-every=%d", len(names), absentEvery)
			res.probe("plain-dir-build")
			run = func(ls *ipld.LinkSystem, _ io.Reader) (ipld.Link, uint64, error) {
				return builder.BuildUnixFSDirectory(lnks, ls)
			}
		case 3:
			sc.Builder, sc.Spec = "BuildUnixFSShardedDirectory", dspec.String()+fmt.Sprintf(" absent-every=%d", absentEvery)
			res.probe("sharded-dir-build")
			run = func(ls *ipld.LinkSystem, _ io.Reader) (ipld.Link, uint64, error) {
				return builder.BuildUnixFSShardedDirectory(dspec.Fanout, mh.MURMUR3X64_64, lnks, ls)
			}
		case 4:
			sc.Builder, sc.Spec = "BuildUnixFSDirectory", fmt.Sprintf("auto-sharded entries=%d", len(names))
			res.probe("auto-sharded-dir-build")
			run = func(ls *ipld.LinkSystem, _ io.Reader) (ipld.Link, uint64, error) {
				return builder.BuildUnixFSDirectory(lnks, ls)
			}
		}
	case 5:
		dir, err := os.MkdirTemp("", "verif-c16-")
		if err != nil {
			res.Skipped, res.SkipReason = true, err.Error()
			return res
		}
		cleanup = func() { os.RemoveAll(dir) }
		r := tape.NewSplitMix(shape.Raw())
		nFiles := 0
		var mk func(p string, depth int)
		mk = func(p string, depth int) {
			n := int(r.Next() % 5) // 0: an empty directory
			if depth == 0 && n == 0 {
				n = 1
			}
			if n == 0 {
				res.probe("empty-directory")
			}
			for i := 0; i < n; i++ {
				name := fmt.Sprintf("e%d", i)
				switch r.Next() % 4 {
				case 0:
					if depth < 2 {
						sub := filepath.Join(p, name+"d")
						_ = os.Mkdir(sub, 0o755)
						mk(sub, depth+1)
						continue
					}
					fallthrough
				case 1, 2:
					sz := int(r.Next() % 700)
					buf := make([]byte, sz)
					for j := range buf {
						buf[j] = byte(r.Next())
					}
					_ = os.WriteFile(filepath.Join(p, name+".bin"), buf, 0o644)
					nFiles++
				case 3:
					_ = os.Symlink("../"+name, filepath.Join(p, name+".lnk"))
				}
			}
		}
		mk(dir, 0)
		rootPath := dir
		rootKind := "directory"
		switch r.Next() % 5 {
		case 0: // the import is rooted at a regular file
			buf := make([]byte, r.Next()%900)
			for j := range buf {
				buf[j] = byte(r.Next())
			}
			rootPath = filepath.Join(dir, "root.bin")
			_ = os.WriteFile(rootPath, buf, 0o644)
			rootKind = fmt.Sprintf("regular file of %d bytes", len(buf))
			res.probe("recursive-rooted-at-file")
		case 1: // ... or at a symlink
			rootPath = filepath.Join(dir, "root.lnk")
			_ = os.Symlink("somewhere/else", rootPath)
			rootKind = "symlink"
			res.probe("recursive-rooted-at-file")
		}
		sc.Builder, sc.Spec = "BuildUnixFSRecursive", fmt.Sprintf("temp tree files=%d rooted at a %s", nFiles, rootKind)
		res.probe("recursive-build")
		run = func(ls *ipld.LinkSystem, _ io.Reader) (ipld.Link, uint64, error) {
			return builder.BuildUnixFSRecursive(rootPath, ls)
		}
	case 6:
		judgeFaults = false
		r := tape.NewSplitMix(shape.Raw())
		sizes := []int{int(r.Next() % 600), int(r.Next() % 50), 0}
		sc.Builder, sc.Spec = "quickbuilder", fmt.Sprintf("files=%v in nested map directories", sizes)
		res.probe("quick-builder")
		run = func(ls *ipld.LinkSystem, _ io.Reader) (l ipld.Link, sz uint64, err error) {
			err = quickbuilder.Store(ls, func(b *quickbuilder.Builder) error {
				m := map[string]quickbuilder.Node{}
				content := func(i int) []byte {
					buf := make([]byte, sizes[i])
					for j := range buf {
						buf[j] = byte(i + j)
					}
					return buf
				}
				for i := range sizes {
					m[fmt.Sprintf("f%d", i)] = b.NewBytesFile(content(i))
				}
				inner := b.NewMapDirectory(m)
				// the same content is handed to the builder a second time, after
				// a directory that links to it was made: the block is written
				// again, and still no parent may reach the store before it
				again := b.NewBytesFile(content(0))
				outer := b.NewMapDirectory(map[string]quickbuilder.Node{"inner": inner, "again": again, "first": m["f0"]})
				l = outer.Link()
				s, _ := outer.Size()
				sz = uint64(s)
				return nil
			})
			return
		}
	}
	if cleanup != nil {
		defer cleanup()
	}

	type outcome struct {
		link               ipld.Link
		err                error
		panicked           bool
		site, pmsg         string
		st                 *store.Store
		orderViolation     string
		retry              func() outcome
		srcFailed          bool
		writeFaultsFired   int
		commitsBeforeCrash int
	}
	exec := func(p *wplan) outcome {
		var o outcome
		st := store.New()
		for _, pl := range preload {
			st.Put(pl.c, pl.b)
		}
		o.st = st
		st.OnCommit = func(c cid.Cid, data []byte) {
			if o.orderViolation != "" {
				return
			}
			ls, err := blockLinks(c, data)
			if err != nil {
				o.orderViolation = fmt.Sprintf("committed block %s does not decode: %v", shortCid(c), err)
				return
			}
			for _, l := range ls {
				if E[l.KeyString()] {
					continue
				}
				if !st.Has(l) {
					o.orderViolation = fmt.Sprintf("block %s was committed while its child %s (produced by the same build) is not in the store", shortCid(c), shortCid(l))
					return
				}
			}
		}
		var src *source.Source
		if p != nil {
			switch p.what {
			case "open":
				st.WritePolicy = func(pt store.WritePoint, nth, _ int) *store.WriteFault {
					if pt == store.WOpen && nth == p.k {
						return &store.WriteFault{Kind: store.EIOOpen, Err: flavourErr(p.flavour, "w")}
					}
					return nil
				}
			case "torn":
				st.WritePolicy = func(pt store.WritePoint, nth, _ int) *store.WriteFault {
					if pt == store.WWrite && nth == p.k {
						return &store.WriteFault{Kind: store.EIOMid, After: p.after, Err: flavourErr(p.flavour, "w")}
					}
					return nil
				}
			case "commit":
				st.WritePolicy = func(pt store.WritePoint, nth, _ int) *store.WriteFault {
					if pt == store.WCommit && nth == p.k {
						return &store.WriteFault{Kind: store.CommitFail, Err: flavourErr(p.flavour, "w")}
					}
					return nil
				}
			case "crash":
				st.WritePolicy = func(_ store.WritePoint, _ int, ev int) *store.WriteFault {
					if ev == p.k {
						return &store.WriteFault{Kind: store.Crash}
					}
					return nil
				}
			case "enospc":
				st.Quota = p.k
			case "source":
				src = source.New(content, source.Random, uint64(p.k)*977+1)
				src.FailAt = p.k
			}
		}
		w := world.New(st, false)
		if p != nil && p.what == "readonly" {
			// a link system over read-only storage: there is no write opener
			// at all, every store must fail (ipld-prime reports a set-up error)
			w.LS.StorageWriteOpener = nil
			st.Fired["no-write-storage"]++
		}
		old := builder.DefaultLinksPerBlock
		builder.DefaultLinksPerBlock = width
		o.panicked, o.site, o.pmsg = guard(func() {
			var r io.Reader
			if src != nil {
				r = src
			}
			o.link, _, o.err = run(&w.LS, r)
		})
		builder.DefaultLinksPerBlock = old
		o.retry = func() outcome {
			// same store, same *LinkSystem, faults gone
			var ro outcome
			ro.st = st
			st.WritePolicy = nil
			st.OnCommit = func(c cid.Cid, data []byte) {
				if ro.orderViolation != "" {
					return
				}
				ls, err := blockLinks(c, data)
				if err != nil {
					ro.orderViolation = fmt.Sprintf("committed block %s does not decode: %v", shortCid(c), err)
					return
				}
				for _, l := range ls {
					if !E[l.KeyString()] && !st.Has(l) {
						ro.orderViolation = fmt.Sprintf("block %s was committed while its child %s (produced by the same build) is not in the store", shortCid(c), shortCid(l))
						return
					}
				}
			}
			old := builder.DefaultLinksPerBlock
			builder.DefaultLinksPerBlock = width
			ro.panicked, ro.site, ro.pmsg = guard(func() { ro.link, _, ro.err = run(&w.LS, nil) })
			builder.DefaultLinksPerBlock = old
			res.Execs++
			return ro
		}
		if src != nil {
			o.srcFailed = src.Failed
		}
		for k, v := range st.Fired {
			if k != "notfound" {
				o.writeFaultsFired += v
			}
		}
		res.Execs++
		res.Events += len(st.Log)
		res.fired(st.Fired)
		return o
	}

	// closure check: everything reachable from l through non-E links is durable
	closure := func(st *store.Store, l ipld.Link) string {
		cl, ok := l.(cidlink.Link)
		if !ok {
			return fmt.Sprintf("returned link has type %T", l)
		}
		seen := map[string]bool{}
		stack := []cid.Cid{cl.Cid}
		for len(stack) > 0 {
			c := stack[len(stack)-1]
			stack = stack[:len(stack)-1]
			if seen[c.KeyString()] {
				continue
			}
			seen[c.KeyString()] = true
			data, ok := st.Get(c)
			if !ok {
				return fmt.Sprintf("block %s of the returned DAG is not in the store", shortCid(c))
			}
			if !E[c.KeyString()] {
				if c2, err := c.Prefix().Sum(data); err != nil || !c2.Equals(c) {
					return fmt.Sprintf("block %s of the returned DAG is in the store with bytes that do not hash to it (a failed write was committed)", shortCid(c))
				}
			}
			ls, err := blockLinks(c, data)
			if err != nil {
				return fmt.Sprintf("block %s does not decode: %v", shortCid(c), err)
			}
			for _, x := range ls {
				if !E[x.KeyString()] {
					stack = append(stack, x)
				}
			}
		}
		return ""
	}
	// dangling check over a whole store (after restart)
	dangling := func(st *store.Store) string {
		for _, c := range st.Keys() {
			if E[c.KeyString()] {
				continue
			}
			data, _ := st.Get(c)
			ls, err := blockLinks(c, data)
			if err != nil {
				return fmt.Sprintf("durable block %s does not decode (torn write became durable?): %v", shortCid(c), err)
			}
			for _, x := range ls {
				if !E[x.KeyString()] && !st.Has(x) {
					return fmt.Sprintf("after restart, durable block %s links to %s which is not durable", shortCid(c), shortCid(x))
				}
			}
		}
		return ""
	}

	// ---- fault-free build
	base := exec(nil)
	steps := base.st.WriteSteps()
	sc.Writes = base.st.WriteEvents()
	sc.Blocks = steps[store.WCommit]
	fail := func(p *wplan, class, format string, args ...any) {
		if res.Violation == nil {
			ps := "fault-free"
			if p != nil {
				ps = p.String()
				sc.Failed = ps
			}
			res.Violation = &Violation{Class: class, Msg: fmt.Sprintf("%s, %s: ", sc.Builder, ps) + fmt.Sprintf(format, args...)}
		}
	}
	if base.panicked {
		fail(nil, "c16/panic@"+base.site, "panic: %s", base.pmsg)
		res.Excerpt = excerpt(base.st.Log, 12)
		return res
	}
	if base.err != nil || base.link == nil {
		res.Skipped, res.SkipReason = true, fmt.Sprintf("fault-free build failed: %v", base.err)
		return res
	}
	if base.orderViolation != "" {
		fail(nil, "c16/parent-before-child", "%s", base.orderViolation)
		res.Excerpt = excerpt(base.st.Log, 12)
		return res
	}
	if msg := closure(base.st, base.link); msg != "" {
		fail(nil, "c16/link-before-dag-committed", "%s", msg)
		res.Excerpt = excerpt(base.st.Log, 12)
		return res
	}
	// the order in which sibling shards are written follows Go's map order
	// inside the builder, which the simulator does not own: the signature uses
	// the MULTISET of the fault-free build's seam events, and nothing of the
	// event order of faulted executions
	sig := sigOfLogBag(fnvMix(0, uint64(which)), base.st.Log)
	if which == 0 && sc.Blocks > width+1 {
		res.probe("multi-level-file")
	}
	if which == 3 || which == 4 {
		// nested shards: more than one dag-pb block committed before the root
		if sc.Blocks >= 3 {
			res.probe("nested-shards")
		}
	}
	if !judgeFaults {
		res.Sig = sig
		res.NonTrivial = sc.Blocks >= 2
		return res
	}

	// ---- plans
	var plans []wplan
	cap := func(n int) int {
		lim := 150
		if tier == Thorough {
			lim = 400
		}
		if n > lim {
			return lim
		}
		return n
	}
	stride := func(n int) int {
		c := cap(n)
		if c == 0 {
			return 1
		}
		s := n / c
		if s < 1 {
			s = 1
		}
		return s
	}
	for k := 0; k < steps[store.WOpen]; k += stride(steps[store.WOpen]) {
		plans = append(plans, wplan{what: "open", k: k})
		if k%2 == 1 || steps[store.WOpen] <= 3 {
			// the same fault reported with a well-known error value
			plans = append(plans, wplan{what: []string{"open", "commit", "torn"}[k%3], k: k, after: 2, flavour: []int{1, 2, 3, 5, 6, 7, 8}[(k/2)%7]})
		}
	}
	// always include the very last (root) block
	plans = append(plans, wplan{what: "open", k: steps[store.WOpen] - 1})
	if steps[store.WOpen] <= 40 {
		for k := 0; k < steps[store.WOpen]; k++ {
			plans = append(plans, wplan{what: "open", k: k, flavour: 5}, wplan{what: "commit", k: k, flavour: 5}, wplan{what: "commit", k: k, flavour: 8})
		}
	}
	for k := 0; k < steps[store.WWrite]; k += stride(steps[store.WWrite]) {
		plans = append(plans, wplan{what: "torn", k: k, after: (k*7 + 1) % 23})
	}
	plans = append(plans, wplan{what: "torn", k: steps[store.WWrite] - 1, after: 3})
	for k := 0; k < steps[store.WCommit]; k += stride(steps[store.WCommit]) {
		plans = append(plans, wplan{what: "commit", k: k})
	}
	plans = append(plans, wplan{what: "commit", k: steps[store.WCommit] - 1})
	for e := 0; e < sc.Writes; e += stride(sc.Writes) {
		plans = append(plans, wplan{what: "crash", k: e})
	}
	plans = append(plans, wplan{what: "crash", k: sc.Writes - 1})
	plans = append(plans, wplan{what: "readonly"})
	total := 0
	for _, c := range base.st.Keys() {
		if !E[c.KeyString()] {
			b, _ := base.st.Get(c)
			total += len(b)
		}
	}
	for _, n := range []int{1, total / 3, total / 2, total - 1} {
		if n > 0 {
			plans = append(plans, wplan{what: "enospc", k: n})
		}
	}
	if hasSource && len(content) > 0 {
		for _, k := range []int{0, len(content) / 3, len(content) / 2, len(content) - 1} {
			plans = append(plans, wplan{what: "source", k: k})
		}
	}
	sc.Plans = len(plans)

	for _, p := range plans {
		p := p
		o := exec(&p)
		posClass := 1
		if p.k == 0 {
			posClass = 0
		}
		sig = fnvMix(sig, tape.HashString(p.what), uint64(posClass), boolU(o.err == nil), boolU(o.link == nil))
		if o.panicked {
			fail(&p, "c16/panic@"+o.site, "panic: %s", o.pmsg)
			res.Excerpt = excerpt(o.st.Log, 12)
			break
		}
		if o.orderViolation != "" {
			fail(&p, "c16/parent-before-child", "%s", o.orderViolation)
			res.Excerpt = excerpt(o.st.Log, 12)
			break
		}
		if o.st.TornCommits > 0 {
			fail(&p, "c16/commit-after-failed-write", "the builder committed a block although writing its bytes had failed (%d such commits)", o.st.TornCommits)
			res.Excerpt = excerpt(o.st.Log, 12)
			break
		}
		fired := o.writeFaultsFired > 0 || o.srcFailed
		if fired && sc.Blocks >= 2 {
			res.NonTrivial = true
		}
		if fired && p.flavour > 0 {
			res.probe("well-known-error-value")
		}
		switch p.what {
		case "torn":
			if fired {
				res.probe("torn-write")
			}
		case "commit":
			if fired && p.k == steps[store.WCommit]-1 {
				res.probe("fault-on-root-commit")
			}
		case "enospc":
			if fired {
				res.probe("enospc")
			}
		case "readonly":
			res.probe("link-system-without-write-storage")
		case "source":
			if fired {
				res.probe("source-error")
			}
		}
		if fired {
			if o.err == nil {
				fail(&p, "c16/error-swallowed", "a write failed but the build reported success (link %v)", o.link)
				res.Excerpt = excerpt(o.st.Log, 12)
				break
			}
			if o.link != nil {
				fail(&p, "c16/link-returned-with-error@"+sc.Builder, "the build returned error %q together with a non-nil link %v", o.err.Error(), o.link)
				res.Excerpt = excerpt(o.st.Log, 12)
				break
			}
		}
		if o.err == nil && o.link != nil {
			if msg := closure(o.st, o.link); msg != "" {
				fail(&p, "c16/link-before-dag-committed", "%s", msg)
				res.Excerpt = excerpt(o.st.Log, 12)
				break
			}
		}
		if o.err == nil && o.link == nil {
			fail(&p, "c16/no-link-no-error", "the build returned neither a link nor an error")
			break
		}
		// ---- the storage recovers and the caller retries the same build
		// through the same link system and store (only after transient
		// faults; a crashed or full store does not recover)
		if fired && o.retry != nil && (p.what == "open" || p.what == "torn" || p.what == "commit") && (p.k%3 == 0 || p.k == steps[store.WCommit]-1) {
			ro := o.retry()
			res.probe("retry-after-transient-fault")
			if ro.panicked {
				fail(&p, "c16/panic@"+ro.site, "retry after the fault panicked: %s", ro.pmsg)
				break
			}
			if ro.orderViolation != "" {
				fail(&p, "c16/parent-before-child-on-retry", "on a retry after the fault: %s", ro.orderViolation)
				res.Excerpt = excerpt(o.st.Log, 12)
				break
			}
			if ro.err != nil || ro.link == nil {
				fail(&p, "c16/retry-fails", "the store recovered but the retried build failed: link=%v err=%v", ro.link, ro.err)
				break
			}
			if msg := closure(o.st, ro.link); msg != "" {
				fail(&p, "c16/link-before-dag-committed-on-retry", "retried build returned a link but %s", msg)
				res.Excerpt = excerpt(o.st.Log, 12)
				break
			}
		}
		if p.what == "crash" && o.st.Frozen() {
			// restart on the durable state
			rs := o.st.Restart()
			if msg := dangling(rs); msg != "" {
				fail(&p, "c16/dangling-after-crash", "%s", msg)
				res.Excerpt = excerpt(o.st.Log, 12)
				break
			}
			// was the crash between a child's commit and its parent's commit?
			commits := 0
			for _, e := range o.st.Log {
				if e.Kind == "Commit" && e.Outcome == "ok" {
					commits++
				}
			}
			if commits > 0 && commits < sc.Blocks {
				res.probe("crash-between-child-and-parent")
			}
			// bounded liveness after the fault: the process restarts on the
			// durable state and builds again; with no further faults the build
			// must complete, return the link of the undisturbed build, and leave
			// its whole DAG durable
			if p.k%3 == 0 || p.k == sc.Writes-1 {
				rw := world.New(rs, false)
				var rl ipld.Link
				var rerr error
				old := builder.DefaultLinksPerBlock
				builder.DefaultLinksPerBlock = width
				rp, rsite, rmsg := guard(func() { rl, _, rerr = run(&rw.LS, nil) })
				builder.DefaultLinksPerBlock = old
				res.Execs++
				res.probe("rebuild-after-crash")
				if rp {
					fail(&p, "c16/panic@"+rsite, "rebuild after restart panicked: %s", rmsg)
					break
				}
				if rerr != nil || rl == nil {
					fail(&p, "c16/rebuild-after-crash-fails", "after restart on the durable state the build fails: link=%v err=%v", rl, rerr)
					break
				}
				if rl.String() != base.link.String() {
					fail(&p, "c16/rebuild-after-crash-differs", "after restart the build returns %s, the undisturbed build %s", rl, base.link)
					break
				}
				if msg := closure(rs, rl); msg != "" {
					fail(&p, "c16/link-before-dag-committed", "rebuild after restart returned a link but %s", msg)
					break
				}
			}
		}
	}
	res.Sig = sig
	return res
}
