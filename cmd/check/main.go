// Command check drives the simulated checks.
//
//	check run <ID> <quick|thorough>      seeded batch over all cores, writes evidence
//	check replay <ID> <file>             re-execute one recorded run from its tapes
//	check worker ...                     (internal) one slice of a batch
//	check list
package main

import (
	"bytes"
	"crypto/sha256"
	"hash"

	"encoding/binary"
	"encoding/json"
	"fmt"
	"github.com/multiformats/go-multihash"
	"os"
	"os/exec"
	"path/filepath"
	"runtime"
	"sort"
	"strconv"
	"strings"
	"sync/atomic"
	"syscall"
	"time"
	"unsafe"

	"verif/checks"
	"verif/sim/store"
	"verif/sim/tape"
)

const (
	exitOK        = 0
	exitViolation = 1
	exitHarness   = 2
)

func verifDir() string {
	if d := os.Getenv("VERIF_DIR"); d != "" {
		return d
	}
	return "/verif"
}

// outDir is where evidence and replay files are written: /verif, except for
// sensitivity runs against a scratch copy of the repository, which must not
// overwrite the evidence of the real tree.
func outDir() string {
	if d := os.Getenv("VERIF_OUT"); d != "" {
		return d
	}
	return verifDir()
}

type replayFile struct {
	Property    string              `json:"property"`
	VerifSeed   uint64              `json:"verif_seed"`
	RunIndex    int                 `json:"run_index"`
	RunSeed     uint64              `json:"run_seed"`
	Tier        string              `json:"tier"`
	Class       string              `json:"class"`
	Msg         string              `json:"msg"`
	Minimised   bool                `json:"minimised"`
	ShrinkExecs int                 `json:"shrink_executions"`
	Tapes       map[string][]uint64 `json:"tapes"`
	Scenario    any                 `json:"scenario"`
	Excerpt     []store.Event       `json:"event_log_excerpt"`
	Original    map[string][]uint64 `json:"original_tapes,omitempty"`
	Layout      string              `json:"check_layout_hash"`
	// History lists the runs (indices under the same VERIF_SEED) that the same
	// worker process executed before this one and that a replay must execute
	// first: set when the violation does not reproduce in a fresh process on
	// its own but does after them, i.e. when it depends on what else the
	// process did (package-level state in the code under test).
	History []int `json:"process_history_runs,omitempty"`
	// Perturb names the perturbation of process-wide state outside the library
	// under which the worker (and hence any replay) ran, see perturbOf.
	Perturb string `json:"process_perturbation,omitempty"`
}

type workerOut struct {
	Runs        int            `json:"runs"`
	Skipped     int            `json:"skipped"`
	SkipReasons map[string]int `json:"skip_reasons"`
	Execs       int            `json:"execs"`
	Events      int            `json:"events"`
	NonTrivial  int            `json:"nontrivial"`
	Sigs        []uint64       `json:"sigs"`
	Probes      map[string]int `json:"probes"`
	Fired       map[string]int `json:"fired"`
	Samples     []any          `json:"samples"`
	Violations  []string       `json:"violations"` // replay file paths
	Classes     []string       `json:"classes"`
	Msgs        []string       `json:"msgs"`
	Extra       map[string]int `json:"extra"`
}

func runSeed(verifSeed uint64, id string, i int) uint64 {
	return tape.Mix(verifSeed, tape.HashString(id), uint64(i))
}

func main() {
	applyPerturbation()
	if len(os.Args) < 2 {
		usage()
	}
	switch os.Args[1] {
	case "list":
		for _, id := range checks.IDs() {
			fmt.Println(id)
		}
	case "run":
		if len(os.Args) < 4 {
			usage()
		}
		os.Exit(master(os.Args[2], checks.Tier(os.Args[3])))
	case "worker":
		os.Exit(worker(os.Args[2:]))
	case "replay":
		if len(os.Args) < 4 {
			usage()
		}
		os.Exit(replay(os.Args[2], os.Args[3]))
	case "replay1":
		if len(os.Args) < 4 {
			usage()
		}
		os.Exit(replay1(os.Args[2], os.Args[3]))
	case "onerun":
		os.Exit(onerun(os.Args[2:]))
	case "selftest":
		if len(os.Args) < 3 {
			usage()
		}
		os.Exit(selftest(os.Args[2:]))
	default:
		usage()
	}
}

// curFile maps an 8-byte file into memory and returns a setter for the index
// of the run the worker is in: one atomic store per run (a file write per run
// costs more than a short run itself), never torn, readable by the master
// whatever happens to this process.
func curFile(path string) func(int64) {
	fallback := func(i int64) { _ = os.WriteFile(path, []byte(strconv.FormatInt(i, 10)), 0o644) }
	f, err := os.OpenFile(path, os.O_RDWR|os.O_CREATE|os.O_TRUNC, 0o644)
	if err != nil {
		return fallback
	}
	if err := f.Truncate(8); err != nil {
		f.Close()
		return fallback
	}
	m, err := syscall.Mmap(int(f.Fd()), 0, 8, syscall.PROT_READ|syscall.PROT_WRITE, syscall.MAP_SHARED)
	f.Close()
	if err != nil || len(m) != 8 {
		return fallback
	}
	p := (*int64)(unsafe.Pointer(&m[0]))
	atomic.StoreInt64(p, -1)
	return func(i int64) { atomic.StoreInt64(p, i) }
}

// readCur reads what curFile's setter last stored (or the textual fallback).
func readCur(path string) (int, bool) {
	b, err := os.ReadFile(path)
	if err != nil {
		return 0, false
	}
	if len(b) == 8 {
		v := int64(binary.LittleEndian.Uint64(b))
		if v < 0 {
			return 0, false
		}
		return int(v), true
	}
	v, err := strconv.Atoi(strings.TrimSpace(string(b)))
	return v, err == nil && v >= 0
}

// perturbOf says under which perturbation of process-wide state OUTSIDE the
// library worker w runs (swarm style: one worker of the pool per kind, the
// others unperturbed). The library has to behave the same whatever else the
// process it lives in does with state that is not the library's:
//
//	"registry": the global multihash registry has had code 0x22 (murmur3)
//	re-registered by "another package" with an unrelated hash function - the
//	registry documents that the last registration wins. HAMT bucket selection
//	is murmur3 by specification, not "whatever is registered under 0x22".
func perturbOf(w int) string {
	if w == 0 {
		return "registry"
	}
	return ""
}

// applyPerturbation is called first thing in every process.
func applyPerturbation() {
	switch os.Getenv("VERIF_PERTURB") {
	case "registry":
		multihash.Register(multihash.MURMUR3X64_64, func() hash.Hash { return sha256.New() })
	}
}

// heartbeatStale is how long a worker may stay silent before the master
// kills it (VERIF_HEARTBEAT_STALE_S overrides).
func heartbeatStale() time.Duration {
	if s := os.Getenv("VERIF_HEARTBEAT_STALE_S"); s != "" {
		if v, err := strconv.Atoi(s); err == nil && v > 0 {
			return time.Duration(v) * time.Second
		}
	}
	return 240 * time.Second
}

func usage() {
	fmt.Fprintln(os.Stderr, "usage: check run <ID> <quick|thorough> | check replay <ID> <file> | check list")
	os.Exit(exitHarness)
}

func verifSeed() uint64 {
	s := os.Getenv("VERIF_SEED")
	if s == "" {
		return 1
	}
	v, err := strconv.ParseUint(s, 10, 64)
	if err != nil {
		iv, err2 := strconv.ParseInt(s, 10, 64)
		if err2 != nil {
			fmt.Fprintf(os.Stderr, "bad VERIF_SEED %q\n", s)
			os.Exit(exitHarness)
		}
		v = uint64(iv)
	}
	return v
}

// ---------------------------------------------------------------- worker

func worker(args []string) int {
	// worker <ID> <tier> <seed> <w> <W> <N> <out>
	if len(args) != 7 {
		fmt.Fprintln(os.Stderr, "worker: bad args")
		return exitHarness
	}
	id, tier := args[0], checks.Tier(args[1])
	seed, _ := strconv.ParseUint(args[2], 10, 64)
	wi, _ := strconv.Atoi(args[3])
	W, _ := strconv.Atoi(args[4])
	N, _ := strconv.Atoi(args[5])
	out := args[6]
	ck, ok := checks.Get(id)
	if !ok {
		fmt.Fprintln(os.Stderr, "unknown check", id)
		return exitHarness
	}
	wo := &workerOut{SkipReasons: map[string]int{}, Probes: map[string]int{}, Fired: map[string]int{}, Extra: map[string]int{}}
	sigs := map[uint64]bool{}
	classes := map[string]bool{}
	shrinkBudget := 200
	if tier == checks.Thorough {
		shrinkBudget = 2000
	}
	deadline := time.Time{}
	if s := os.Getenv("VERIF_WORKER_DEADLINE_S"); s != "" {
		if v, err := strconv.Atoi(s); err == nil {
			deadline = time.Now().Add(time.Duration(v) * time.Second)
		}
	}
	runTimeout := 90 * time.Second
	if id == "C13" {
		runTimeout = 30 * time.Second // its DAGs are a few kilobytes; runs take milliseconds
	}
	if s := os.Getenv("VERIF_RUN_TIMEOUT_S"); s != "" {
		if v, err := strconv.Atoi(s); err == nil && v > 0 {
			runTimeout = time.Duration(v) * time.Second
		}
	}
	var curRun atomic.Int64
	curRun.Store(-1)
	var curStart atomic.Int64
	setCur := curFile(out + ".cur")
	go func() {
		// heartbeat for the master (see run): proves that this process's
		// runtime still schedules goroutines
		for n := 0; ; n++ {
			_ = os.WriteFile(out+".hb", []byte(strconv.Itoa(n)), 0o644)
			time.Sleep(2 * time.Second)
		}
	}()
	go func() {
		// wall-clock watchdog: a single run that neither returns nor fails for
		// runTimeout is recorded (seed only) and the process gives up; the
		// master confirms it in a fresh process before anything is reported
		for {
			time.Sleep(time.Second)
			i := curRun.Load()
			if i < 0 {
				continue
			}
			var ms runtime.MemStats
			runtime.ReadMemStats(&ms)
			tooBig := ms.HeapAlloc > 6<<30
			if tooBig || time.Since(time.Unix(0, curStart.Load())) > runTimeout {
				rf := &replayFile{Property: id, VerifSeed: seed, RunIndex: int(i), RunSeed: runSeed(seed, id, int(i)), Tier: string(tier), Perturb: os.Getenv("VERIF_PERTURB"), Class: "watchdog/run-exceeded-" + runTimeout.String(), Msg: "a single simulated run did not finish within the wall-clock watchdog"}
				b, _ := json.MarshalIndent(rf, "", " ")
				path := filepath.Join(outDir(), "replays", fmt.Sprintf("%s-%d-%d-hang.json", id, seed, i))
				_ = os.MkdirAll(filepath.Dir(path), 0o755)
				_ = os.WriteFile(path, b, 0o644)
				_ = os.WriteFile(out+".hang", []byte(path), 0o644)
				os.Exit(3)
			}
		}
	}()
	for i := wi; i < N; i += W {
		curStart.Store(time.Now().UnixNano())
		curRun.Store(int64(i))
		setCur(int64(i))
		if !deadline.IsZero() && time.Now().After(deadline) {
			wo.Extra["runs_cut_by_wallclock_cap"] += (N - i + W - 1) / W
			break
		}
		rs := runSeed(seed, id, i)
		ts := tape.NewSet(rs)
		res := ck.Run(ts, tier)
		curRun.Store(-1) // the watchdog times single runs, not the minimisation that may follow
		wo.Runs++
		wo.Execs += res.Execs
		wo.Events += res.Events
		for k, v := range res.Probes {
			wo.Probes[k] += v
		}
		for k, v := range res.Fired {
			wo.Fired[k] += v
		}
		if res.Skipped {
			wo.Skipped++
			wo.SkipReasons[trim(res.SkipReason, 160)]++
			continue
		}
		if res.NonTrivial {
			wo.NonTrivial++
			sigs[res.Sig] = true
		}
		if len(wo.Samples) < 2 && res.NonTrivial && res.Scenario != nil {
			wo.Samples = append(wo.Samples, res.Scenario)
		}
		if res.Violation == nil {
			continue
		}
		cls := res.Violation.Class
		if classes[cls] {
			wo.Extra["repeat_violations_not_minimised"]++
			continue
		}
		classes[cls] = true
		snap := ts.Snapshot()
		rf := &replayFile{Property: id, VerifSeed: seed, RunIndex: i, RunSeed: rs, Tier: string(tier), Perturb: os.Getenv("VERIF_PERTURB"), Class: cls, Msg: res.Violation.Msg, Tapes: snap, Scenario: res.Scenario, Excerpt: res.Excerpt, Layout: checks.LayoutHash()}
		// minimise: same violation class at the same oracle
		inProc := func(c map[string][]uint64) (*checks.Result, bool) {
			r := ck.Run(tape.FromSnapshot(rs, c), tier)
			return r, r.Violation != nil && r.Violation.Class == cls
		}
		isRace := strings.Contains(cls, "/data-race@")
		budget := shrinkBudget
		pred := func(c map[string][]uint64) bool { _, ok := inProc(c); return ok }
		if isRace {
			// the race detector reports each racing stack pair once per
			// process, so candidates are judged in fresh processes
			budget = shrinkBudget / 5
			pred = func(c map[string][]uint64) bool {
				return replayInSubprocess(id, rs, seed, i, tier, cls, c, out)
			}
		}
		small, used := tape.Shrink(snap, ck.RecordWidths(), budget, pred)
		var r2 *checks.Result
		ok2 := false
		if isRace {
			ok2 = replayInSubprocess(id, rs, seed, i, tier, cls, small, out)
			// the minimised scenario is re-decoded by the fresh-process replay
			// that the master performs; keep the original description here
			r2 = &checks.Result{Violation: res.Violation, Scenario: map[string]any{"note": "scenario of the un-minimised run; replay the file to see the minimised one", "original": res.Scenario}, Excerpt: res.Excerpt}
		} else {
			r2, ok2 = inProc(small)
		}
		if ok2 {
			rf.Original = snap
			rf.Tapes = small
			rf.Minimised = true
			rf.ShrinkExecs = used
			rf.Msg = r2.Violation.Msg
			rf.Scenario = r2.Scenario
			rf.Excerpt = r2.Excerpt
		}
		path := filepath.Join(outDir(), "replays", fmt.Sprintf("%s-%d-%d.json", id, seed, i))
		_ = os.MkdirAll(filepath.Dir(path), 0o755)
		b, _ := json.MarshalIndent(rf, "", " ")
		if err := os.WriteFile(path, b, 0o644); err != nil {
			fmt.Fprintln(os.Stderr, "worker: cannot write replay:", err)
			return exitHarness
		}
		wo.Violations = append(wo.Violations, path)
		wo.Classes = append(wo.Classes, cls)
		wo.Msgs = append(wo.Msgs, rf.Msg)
		if len(wo.Violations) >= 4 || isRace {
			// after a race report the detector's per-process de-duplication
			// makes further verdicts in this process unreliable (and report
			// symbolisation is slow): stop this worker here
			wo.Extra["runs_not_executed_after_race_report"] += (N - i - 1) / W
			break
		}
	}
	for s := range sigs {
		wo.Sigs = append(wo.Sigs, s)
	}
	sort.Slice(wo.Sigs, func(i, j int) bool { return wo.Sigs[i] < wo.Sigs[j] })
	b, _ := json.Marshal(wo)
	if err := os.WriteFile(out, b, 0o644); err != nil {
		fmt.Fprintln(os.Stderr, "worker: cannot write output:", err)
		return exitHarness
	}
	return exitOK
}

// replayInSubprocess judges one candidate tape set in a fresh process.
func replayInSubprocess(id string, rs, seed uint64, i int, tier checks.Tier, cls string, c map[string][]uint64, out string) bool {
	rf := &replayFile{Property: id, VerifSeed: seed, RunIndex: i, RunSeed: rs, Tier: string(tier), Class: cls, Tapes: c, Perturb: os.Getenv("VERIF_PERTURB")}
	b, _ := json.Marshal(rf)
	p := out + ".cand.json"
	if err := os.WriteFile(p, b, 0o644); err != nil {
		return false
	}
	defer os.Remove(p)
	self, _ := os.Executable()
	cmd := exec.Command(self, "replay", id, p)
	cmd.Env = append(os.Environ(), "VERIF_REPLAY_WANT_CLASS="+cls)
	o, _ := cmd.CombinedOutput()
	return cmd.ProcessState != nil && cmd.ProcessState.ExitCode() == exitViolation && strings.Contains(string(o), "class: "+cls+"\n")
}

func trim(s string, n int) string {
	if len(s) > n {
		return s[:n]
	}
	return s
}

// ---------------------------------------------------------------- determinism self-test

// onerun <ID> <tier> <seed> <from> <to>: prints one line per run with
// everything that must be a pure function of the seed.
func onerun(args []string) int {
	if len(args) != 5 {
		return exitHarness
	}
	ck, ok := checks.Get(args[0])
	if !ok {
		return exitHarness
	}
	tier := checks.Tier(args[1])
	seed, _ := strconv.ParseUint(args[2], 10, 64)
	from, _ := strconv.Atoi(args[3])
	to, _ := strconv.Atoi(args[4])
	for i := from; i < to; i++ {
		rs := runSeed(seed, args[0], i)
		ts := tape.NewSet(rs)
		res := ck.Run(ts, tier)
		cls := ""
		if res.Violation != nil {
			cls = res.Violation.Class
		}
		sc, _ := json.Marshal(res.Scenario)
		snap, _ := json.Marshal(ts.Snapshot())
		fmt.Printf("%d sig=%x events=%d execs=%d skipped=%v class=%q scenario=%x tapes=%x\n", i, res.Sig, res.Events, res.Execs, res.Skipped, cls, tape.HashString(string(sc)), tape.HashString(string(snap)))
	}
	return exitOK
}

// selftest <ID>...: every run of a seed range is executed in fresh processes
// at GOMAXPROCS 1, 4 and 16 (twice at 4) and the per-run lines are diffed.
func selftest(ids []string) int {
	self, _ := os.Executable()
	bad := 0
	for _, id := range ids {
		if _, ok := checks.Get(id); !ok {
			fmt.Fprintln(os.Stderr, "unknown check", id)
			return exitHarness
		}
		n := 40
		if s := os.Getenv("VERIF_SELFTEST_RUNS"); s != "" {
			if v, err := strconv.Atoi(s); err == nil {
				n = v
			}
		}
		var outs []string
		for _, gmp := range []string{"1", "4", "16", "4"} {
			dir, _ := os.MkdirTemp("", "verif-selftest-")
			cmd := exec.Command(self, "onerun", id, "quick", strconv.FormatUint(verifSeed(), 10), "0", strconv.Itoa(n))
			cmd.Env = append(os.Environ(), "GOMAXPROCS="+gmp, "GORACE=halt_on_error=0 exitcode=0 log_path="+filepath.Join(dir, "race"))
			o, err := cmd.Output()
			os.RemoveAll(dir)
			if err != nil {
				fmt.Fprintf(os.Stderr, "selftest %s: run failed: %v\n", id, err)
				return exitHarness
			}
			so := string(o)
			if id == "C10" || id == "C16" {
				// sharded builds commit sibling shards in Go's map order, which
				// the simulator cannot own: the number of seam events under a
				// byte-quota or k-th-step fault depends on it. Verdict,
				// scenario, tapes and signature must still be identical.
				var sb strings.Builder
				for _, f := range strings.Fields(so) {
					if strings.HasPrefix(f, "events=") {
						continue
					}
					sb.WriteString(f)
					if strings.HasPrefix(f, "tapes=") {
						sb.WriteString("\n")
					} else {
						sb.WriteString(" ")
					}
				}
				so = sb.String()
			}
			outs = append(outs, so)
		}
		same := true
		for _, o := range outs[1:] {
			if o != outs[0] {
				same = false
				a, b := strings.Split(outs[0], "\n"), strings.Split(o, "\n")
				for i := range a {
					if i < len(b) && a[i] != b[i] {
						fmt.Printf("DIVERGENCE %s:\n  %s\n  %s\n", id, a[i], b[i])
						break
					}
				}
			}
		}
		if same {
			fmt.Printf("selftest %s: %d runs x 4 processes (GOMAXPROCS 1,4,16,4) identical\n", id, n)
		} else {
			bad++
		}
	}
	if bad > 0 {
		return exitHarness
	}
	return exitOK
}

// ---------------------------------------------------------------- replay

// replay is the supervisor: the run itself happens in a child process
// (replay1) so that a death of that process - a Go fatal error such as a stack
// overflow cannot be recovered - is still turned into a verdict, and so that
// the race detector's log (GORACE is only read at process start) can be set up.
func replay(id, path string) int {
	if _, ok := checks.Get(id); !ok {
		fmt.Fprintln(os.Stderr, "unknown check", id)
		return exitHarness
	}
	self, _ := os.Executable()
	dir, err := os.MkdirTemp("", "verif-replay-")
	if err != nil {
		fmt.Fprintln(os.Stderr, err)
		return exitHarness
	}
	defer os.RemoveAll(dir)
	cmd := exec.Command(self, "replay1", id, path)
	cmd.Env = append(os.Environ(), "GORACE=halt_on_error=0 exitcode=0 log_path="+filepath.Join(dir, "race"))
	if b, err := os.ReadFile(path); err == nil {
		var rf replayFile
		if json.Unmarshal(b, &rf) == nil && rf.Perturb != "" {
			cmd.Env = append(cmd.Env, "VERIF_PERTURB="+rf.Perturb)
		}
	}
	out, _ := cmd.CombinedOutput()
	os.Stdout.Write(out)
	code := -1
	if cmd.ProcessState != nil {
		code = cmd.ProcessState.ExitCode()
	}
	if code == exitOK || code == exitViolation {
		return code
	}
	if site, what, ok := libraryDeath(string(out)); ok {
		fmt.Printf("class: %s/process-death@%s\nthe process died inside the library: %s\nVIOLATION property=%s replay=%s\n", strings.ToLower(id), site, what, id, path)
		return exitViolation
	}
	return exitHarness
}

// libraryDeath inspects the output of a dead process: a Go "fatal error" or
// unrecovered panic whose innermost non-runtime frame belongs to
// go-unixfsnode is attributed to the library.
func libraryDeath(out string) (site, what string, ok bool) {
	i := strings.Index(out, "fatal error:")
	if i < 0 {
		i = strings.Index(out, "panic:")
	}
	if i < 0 {
		return "", "", false
	}
	rest := out[i:]
	what = strings.SplitN(rest, "\n", 2)[0]
	j := strings.Index(rest, "goroutine ")
	if j < 0 {
		return "", what, false
	}
	for _, line := range strings.Split(rest[j:], "\n")[1:] {
		if line == "" {
			break
		}
		if strings.HasPrefix(line, "\t") || strings.HasPrefix(line, " ") {
			continue
		}
		fn := line
		if k := strings.LastIndex(fn, "("); k > 0 {
			fn = fn[:k]
		}
		if strings.HasPrefix(fn, "runtime.") || strings.HasPrefix(fn, "internal/") || strings.HasPrefix(fn, "sync.") || strings.HasPrefix(fn, "io.") || strings.HasPrefix(fn, "bytes.") {
			continue
		}
		const sut = "github.com/ipfs/go-unixfsnode"
		if strings.HasPrefix(fn, sut) {
			return strings.TrimPrefix(strings.TrimPrefix(fn, sut), "/"), what, true
		}
		return fn, what, false
	}
	return "", what, false
}

func replay1(id, path string) int {
	ck, ok := checks.Get(id)
	if !ok {
		fmt.Fprintln(os.Stderr, "unknown check", id)
		return exitHarness
	}
	b, err := os.ReadFile(path)
	if err != nil {
		fmt.Fprintln(os.Stderr, err)
		return exitHarness
	}
	var rf replayFile
	if err := json.Unmarshal(b, &rf); err != nil {
		fmt.Fprintln(os.Stderr, err)
		return exitHarness
	}
	if rf.Property != id {
		fmt.Fprintf(os.Stderr, "replay file is for %s, not %s\n", rf.Property, id)
		return exitHarness
	}
	if rf.Layout != "" && rf.Layout != checks.LayoutHash() && rf.Tapes != nil {
		fmt.Fprintf(os.Stderr, "replay file %s was recorded by another version of the check (layout %s, now %s): its tapes may decode into a different scenario\n", path, rf.Layout, checks.LayoutHash())
		if os.Getenv("VERIF_STRICT_LAYOUT") == "1" {
			return exitHarness
		}
	}
	ts := tape.FromSnapshot(rf.RunSeed, rf.Tapes)
	if rf.Tapes == nil {
		ts = tape.NewSet(rf.RunSeed) // recorded by the watchdog: seed only
	}
	go func() {
		limit := 180 * time.Second
		if id == "C13" {
			limit = 60 * time.Second
		}
		if s := os.Getenv("VERIF_RUN_TIMEOUT_S"); s != "" {
			if v, err := strconv.Atoi(s); err == nil && v > 0 {
				limit = 2 * time.Duration(v) * time.Second
			}
		}
		time.Sleep(limit)
		if id == "C13" {
			fmt.Printf("class: c13/unbounded-work/watchdog\na single library call did not return within %v on a DAG of a few kilobytes\nVIOLATION property=%s replay=%s\n", limit, id, path)
			os.Exit(exitViolation)
		}
		fmt.Fprintf(os.Stderr, "replay exceeded %v (harness trouble, not a verdict)\n", limit)
		os.Exit(exitHarness)
	}()
	for _, h := range rf.History {
		_ = ck.Run(tape.NewSet(runSeed(rf.VerifSeed, id, h)), checks.Tier(rf.Tier))
	}
	if len(rf.History) > 0 {
		fmt.Printf("executed %d earlier runs of the same process first (runs %d..%d of seed %d)\n", len(rf.History), rf.History[0], rf.History[len(rf.History)-1], rf.VerifSeed)
	}
	res := ck.Run(ts, checks.Tier(rf.Tier))
	sc, _ := json.Marshal(res.Scenario)
	fmt.Printf("replay %s seed=%d run=%d tier=%s\nscenario: %s\n", id, rf.VerifSeed, rf.RunIndex, rf.Tier, sc)
	if res.Violation == nil {
		fmt.Println("no violation on this tree (recorded class was", rf.Class+")")
		return exitOK
	}
	fmt.Printf("class: %s\n%s\n", res.Violation.Class, res.Violation.Msg)
	if res.Violation.Class != rf.Class {
		fmt.Printf("note: recorded class was %s\n", rf.Class)
	}
	fmt.Printf("VIOLATION property=%s replay=%s\n", id, path)
	return exitViolation
}

// ---------------------------------------------------------------- master

type knownFinding struct {
	Property string `json:"property"`
	Class    string `json:"class"`
	Status   string `json:"status"` // known | fixed
	Commit   string `json:"commit,omitempty"`
	What     string `json:"what"`
}

type knownFile struct {
	Findings []knownFinding `json:"findings"`
}

func loadKnown() []knownFinding {
	b, err := os.ReadFile(filepath.Join(verifDir(), "known-findings.json"))
	if err != nil {
		return nil
	}
	var kf knownFile
	if err := json.Unmarshal(b, &kf); err != nil {
		fmt.Fprintln(os.Stderr, "known-findings.json is not valid JSON:", err)
		os.Exit(exitHarness)
	}
	return kf.Findings
}

func master(id string, tier checks.Tier) int {
	ck, ok := checks.Get(id)
	if !ok {
		fmt.Fprintln(os.Stderr, "unknown check", id)
		return exitHarness
	}
	if tier != checks.Quick && tier != checks.Thorough {
		usage()
	}
	seed := verifSeed()
	fmt.Printf("VERIF_SEED=%d property=%s tier=%s\n", seed, id, tier)
	start := time.Now()
	W := runtime.NumCPU()
	if s := os.Getenv("VERIF_WORKERS"); s != "" {
		if v, err := strconv.Atoi(s); err == nil && v > 0 {
			W = v
		}
	}
	N := ck.Runs(tier)
	if s := os.Getenv("VERIF_RUNS"); s != "" {
		if v, err := strconv.Atoi(s); err == nil && v > 0 {
			N = v
		}
	}
	if W > N {
		W = N
	}
	tmp, err := os.MkdirTemp("", "verif-"+id+"-")
	if err != nil {
		fmt.Fprintln(os.Stderr, err)
		return exitHarness
	}
	defer os.RemoveAll(tmp)
	self, _ := os.Executable()
	type wres struct {
		err  error
		out  string
		code int
	}
	done := make(chan wres, W)
	for w := 0; w < W; w++ {
		go func(w int) {
			outp := filepath.Join(tmp, fmt.Sprintf("w%d.json", w))
			cmd := exec.Command(self, "worker", id, string(tier), strconv.FormatUint(seed, 10), strconv.Itoa(w), strconv.Itoa(W), strconv.Itoa(N), outp)
			cmd.Env = append(os.Environ(), "GOMAXPROCS=2", "GORACE=halt_on_error=0 exitcode=0 log_path="+filepath.Join(tmp, fmt.Sprintf("race-w%d", w)))
			if pb := perturbOf(w); pb != "" {
				cmd.Env = append(cmd.Env, "VERIF_PERTURB="+pb)
			}
			var ob bytes.Buffer
			cmd.Stdout, cmd.Stderr = &ob, &ob
			err := cmd.Start()
			if err == nil {
				// liveness from outside: the worker's heartbeat goroutine touches
				// <out>.hb every two seconds. The in-process watchdog cannot fire
				// when the whole Go runtime of the worker is stuck (observed once
				// under a load average of 90: one thread inside runtime.Stack, the
				// world never stopped again); a worker silent for heartbeatStale is
				// killed and the run it was in is handled like a watchdog stop
				// (replayed alone before anything is said about it).
				stop := make(chan struct{})
				go func() {
					started := time.Now()
					for {
						select {
						case <-stop:
							return
						case <-time.After(5 * time.Second):
						}
						last := started
						if fi, e := os.Stat(outp + ".hb"); e == nil {
							last = fi.ModTime()
						}
						if time.Since(last) > heartbeatStale() {
							{
								if i, ok := readCur(outp + ".cur"); ok {
									rf := &replayFile{Property: id, VerifSeed: seed, RunIndex: i, RunSeed: runSeed(seed, id, i), Tier: string(tier), Perturb: perturbOf(w), Class: "watchdog/worker-silent", Msg: "the worker process stopped responding (no heartbeat) during this run and was killed"}
									jb, _ := json.MarshalIndent(rf, "", " ")
									path := filepath.Join(outDir(), "replays", fmt.Sprintf("%s-%d-%d-hang.json", id, seed, i))
									_ = os.MkdirAll(filepath.Dir(path), 0o755)
									_ = os.WriteFile(path, jb, 0o644)
									_ = os.WriteFile(outp+".hang", []byte(path), 0o644)
								}
							}
							_ = cmd.Process.Kill()
							return
						}
					}
				}()
				err = cmd.Wait()
				close(stop)
			}
			b := ob.Bytes()
			code := 0
			if cmd.ProcessState != nil {
				code = cmd.ProcessState.ExitCode()
			}
			if _, herr := os.Stat(outp + ".hang"); herr == nil && err != nil {
				code = 3 // stopped for silence: the .hang marker carries the run
			}
			if err != nil {
				_ = os.WriteFile(filepath.Join(tmp, fmt.Sprintf("w%d.log", w)), b, 0o644)
			}
			done <- wres{err: err, out: string(b), code: code}
		}(w)
	}
	harnessTrouble := false
	var deadOut, deaths []string
	for w := 0; w < W; w++ {
		r := <-done
		if r.err != nil && r.code == 3 {
			continue // watchdog: handled below through the .hang marker
		}
		if r.err != nil {
			deadOut = append(deadOut, r.out)
		}
	}
	var hangs []string
	// a dead worker: replay the run it was in; if the death reproduces in a
	// fresh process and lies inside the library it is a finding, otherwise it
	// is harness trouble
	for w := 0; w < W; w++ {
		if _, err := os.Stat(filepath.Join(tmp, fmt.Sprintf("w%d.json", w))); err == nil {
			continue
		}
		if _, err := os.Stat(filepath.Join(tmp, fmt.Sprintf("w%d.json.hang", w))); err == nil {
			continue
		}
		i, ok := readCur(filepath.Join(tmp, fmt.Sprintf("w%d.json.cur", w)))
		if !ok {
			harnessTrouble = true
			continue
		}
		rf := &replayFile{Property: id, VerifSeed: seed, RunIndex: i, RunSeed: runSeed(seed, id, i), Tier: string(tier), Perturb: perturbOf(w), Class: "process-death", Msg: "the worker process died during this run"}
		jb, _ := json.MarshalIndent(rf, "", " ")
		path := filepath.Join(outDir(), "replays", fmt.Sprintf("%s-%d-%d-death.json", id, seed, i))
		_ = os.MkdirAll(filepath.Dir(path), 0o755)
		_ = os.WriteFile(path, jb, 0o644)
		deaths = append(deaths, path)
	}
	for w := 0; w < W; w++ {
		if b, err := os.ReadFile(filepath.Join(tmp, fmt.Sprintf("w%d.json.hang", w))); err == nil {
			hangs = append(hangs, string(b))
		}
	}
	if harnessTrouble {
		for _, o := range deadOut {
			fmt.Fprintln(os.Stderr, tail(o, 3000))
		}
		fmt.Fprintln(os.Stderr, "harness trouble: a worker process died and the run it was in is unknown; no verdict")
		return exitHarness
	}
	// merge
	total := &workerOut{SkipReasons: map[string]int{}, Probes: map[string]int{}, Fired: map[string]int{}, Extra: map[string]int{}}
	sigs := map[uint64]bool{}
	for w := 0; w < W; w++ {
		b, err := os.ReadFile(filepath.Join(tmp, fmt.Sprintf("w%d.json", w)))
		if err != nil {
			if _, herr := os.Stat(filepath.Join(tmp, fmt.Sprintf("w%d.json.hang", w))); herr == nil {
				total.Extra["workers_stopped_by_watchdog"]++
				continue
			}
			if _, cerr := os.Stat(filepath.Join(tmp, fmt.Sprintf("w%d.json.cur", w))); cerr == nil {
				total.Extra["workers_died"]++
				continue
			}
			fmt.Fprintln(os.Stderr, "missing worker output:", err)
			return exitHarness
		}
		var wo workerOut
		if err := json.Unmarshal(b, &wo); err != nil {
			fmt.Fprintln(os.Stderr, err)
			return exitHarness
		}
		total.Runs += wo.Runs
		if pb := perturbOf(w); pb != "" {
			total.Extra["runs_in_a_process_with_perturbation_"+pb] += wo.Runs
		}
		total.Skipped += wo.Skipped
		total.Execs += wo.Execs
		total.Events += wo.Events
		total.NonTrivial += wo.NonTrivial
		for k, v := range wo.SkipReasons {
			total.SkipReasons[k] += v
		}
		for k, v := range wo.Probes {
			total.Probes[k] += v
		}
		for k, v := range wo.Fired {
			total.Fired[k] += v
		}
		for k, v := range wo.Extra {
			total.Extra[k] += v
		}
		for _, s := range wo.Sigs {
			sigs[s] = true
		}
		if len(total.Samples) < 3 {
			total.Samples = append(total.Samples, wo.Samples...)
		}
		total.Violations = append(total.Violations, wo.Violations...)
		total.Classes = append(total.Classes, wo.Classes...)
		total.Msgs = append(total.Msgs, wo.Msgs...)
	}
	if len(total.Samples) > 3 {
		total.Samples = total.Samples[:3]
	}
	wall := time.Since(start).Seconds()

	// judge violations against the known-findings file
	known := loadKnown()
	reported := 0
	seenClass := map[string]bool{}
	order := make([]int, len(total.Violations))
	for i := range order {
		order[i] = i
	}
	sort.Slice(order, func(a, b int) bool { return total.Violations[order[a]] < total.Violations[order[b]] })
	knownPrinted := map[string]bool{}
	for _, i := range order {
		cls := total.Classes[i]
		isKnown := false
		for _, k := range known {
			if k.Property == id && k.Status == "known" && k.Class == cls {
				isKnown = true
				if !knownPrinted[cls] {
					knownPrinted[cls] = true
					fmt.Printf("KNOWN-FINDING: property=%s %s (%s)\n", id, k.What, cls)
				}
			}
		}
		if isKnown {
			continue
		}
		if seenClass[cls] {
			continue
		}
		seenClass[cls] = true
		// confirm in a fresh process before reporting
		cmd := exec.Command(self, "replay", id, total.Violations[i])
		out, _ := cmd.CombinedOutput()
		code := -1
		if cmd.ProcessState != nil {
			code = cmd.ProcessState.ExitCode()
		}
		if code != exitViolation {
			// fall back to the unminimised tapes
			if restoreOriginal(total.Violations[i]) {
				cmd = exec.Command(self, "replay", id, total.Violations[i])
				out, _ = cmd.CombinedOutput()
				if cmd.ProcessState != nil {
					code = cmd.ProcessState.ExitCode()
				}
			}
		}
		if code != exitViolation {
			// not on its own: does it depend on what the worker process had
			// done before? Replay with the runs that preceded it in that
			// process (the worker's share is every W-th run), doubling the
			// length of the history until the violation shows again
			for k := 1; k <= 256 && code != exitViolation; k *= 2 {
				hist := historyOf(total.Violations[i], W, k)
				if hist == nil {
					break
				}
				cmd = exec.Command(self, "replay", id, total.Violations[i])
				out, _ = cmd.CombinedOutput()
				if cmd.ProcessState != nil {
					code = cmd.ProcessState.ExitCode()
				}
				if code == exitViolation {
					total.Extra["violations_needing_process_history"]++
					total.Msgs[i] += fmt.Sprintf(" [reproduces only after the %d runs the same process executed before it: process-wide state]", len(hist))
				} else if len(hist) < k {
					break // the whole past of that worker was already replayed
				}
			}
		}
		if code != exitViolation {
			historyOf(total.Violations[i], W, 0)
			fmt.Fprintf(os.Stderr, "harness trouble: violation %s (%s) did not reproduce in a fresh process, alone or after the runs that preceded it (exit %d):\n%s\n", total.Violations[i], cls, code, tail(string(out), 2000))
			harnessTrouble = true
			continue
		}
		fmt.Printf("violation class=%s: %s\n", cls, total.Msgs[i])
		fmt.Printf("VIOLATION property=%s replay=%s\n", id, total.Violations[i])
		reported++
	}

	// runs during which a worker died: confirm in a fresh process
	for di, dp := range deaths {
		if di > 0 && reported > 0 {
			total.Extra["further_worker_deaths_not_replayed"]++
			continue
		}
		cmd := exec.Command(self, "replay", id, dp)
		out, _ := cmd.CombinedOutput()
		code := -1
		if cmd.ProcessState != nil {
			code = cmd.ProcessState.ExitCode()
		}
		if code == exitViolation {
			fmt.Print(tail(string(out), 700))
			reported++
		} else {
			fmt.Fprintf(os.Stderr, "harness trouble: a worker died in run %s and the replay exits %d (not attributable to the library):\n%s\n", dp, code, tail(string(out), 3000))
			harnessTrouble = true
		}
	}

	// runs stopped by the watchdog: confirm in a fresh process
	for hi, hp := range hangs {
		if hi > 0 && reported > 0 {
			total.Extra["further_watchdog_stops_not_replayed"]++
			continue
		}
		cmd := exec.Command(self, "replay", id, hp)
		out, _ := cmd.CombinedOutput()
		code := -1
		if cmd.ProcessState != nil {
			code = cmd.ProcessState.ExitCode()
		}
		switch {
		case code == exitViolation:
			fmt.Print(tail(string(out), 1500))
			reported++
		case code == exitOK:
			fmt.Fprintf(os.Stderr, "note: run %s exceeded the watchdog in the batch but finished alone; not reported\n", hp)
			total.Extra["watchdog_not_confirmed"]++
		default:
			fmt.Fprintf(os.Stderr, "harness trouble: watchdog replay %s exit %d\n%s\n", hp, code, tail(string(out), 1500))
			harnessTrouble = true
		}
	}

	// regression replays: every finding that was ever repaired stays as a
	// recorded run and must keep passing
	regs, _ := filepath.Glob(filepath.Join(verifDir(), "regress", id, "*.json"))
	sort.Strings(regs)
	regressRun := 0
	for _, rp := range regs {
		cmd := exec.Command(self, "replay", id, rp)
		cmd.Env = append(os.Environ(), "VERIF_STRICT_LAYOUT=1")
		out, _ := cmd.CombinedOutput()
		code := -1
		if cmd.ProcessState != nil {
			code = cmd.ProcessState.ExitCode()
		}
		regressRun++
		switch code {
		case exitOK:
		case exitViolation:
			cls := classOf(rp)
			isKnown := false
			for _, k := range known {
				if k.Property == id && k.Status == "known" && k.Class == cls {
					isKnown = true
					if !knownPrinted[cls] {
						knownPrinted[cls] = true
						fmt.Printf("KNOWN-FINDING: property=%s %s (%s)\n", id, k.What, cls)
					}
				}
			}
			if !isKnown {
				fmt.Printf("regression replay fails again:\n%s", tail(string(out), 1500))
				reported++
			}
		default:
			fmt.Fprintf(os.Stderr, "harness trouble: regression replay %s exit %d\n%s\n", rp, code, tail(string(out), 1500))
			harnessTrouble = true
		}
	}

	// probes that never fired in a thorough batch are a harness problem
	var stuck []string
	for _, p := range ck.RequiredProbes() {
		if total.Probes[p] == 0 {
			stuck = append(stuck, p)
		}
	}

	// evidence
	runsPerHour := 0.0
	if wall > 0 {
		runsPerHour = float64(total.Execs) / wall * 3600
	}
	cov := map[string]any{
		"evaluations":                total.Execs,
		"distinct_nontrivial":        len(sigs),
		"rule":                       ck.Rule(),
		"samples":                    total.Samples,
		"seeded_runs":                total.Runs,
		"nontrivial_runs":            total.NonTrivial,
		"undecidable_scenarios":      total.Skipped,
		"undecidable_reasons":        total.SkipReasons,
		"simulated_time_seam_events": total.Events,
		"executions_per_hour":        int(runsPerHour),
		"seeded_runs_per_hour":       int(float64(total.Runs) / (wall + 1e-9) * 3600),
		"seeds":                      fmt.Sprintf("VERIF_SEED=%d; run i uses mix(VERIF_SEED, %q, i), i in [0,%d)", seed, id, N),
		"fault_kinds_fired":          total.Fired,
		"probes":                     total.Probes,
		"probes_stuck_at_zero":       stuck,
		"distinct_measure":           "distinct abstract trace signatures (FNV over op kinds/classes/outcomes and the sequence of seam events (kind, outcome, task); CIDs and sizes abstracted)",
		"components":                 ck.RealStub(),
		"workers":                    W,
		"exhaustive":                 false,
		"known_findings_seen":        len(knownPrinted),
		"regression_replays_run":     regressRun,
		"extra":                      total.Extra,
	}
	ev := map[string]any{
		"property_id": id,
		"tier":        string(tier),
		"seed":        int64(seed & 0x7fffffffffffffff),
		"level":       ck.Level(),
		"coverage":    cov,
		"assumptions": ck.Assumptions(),
		"wall_s":      wall,
		"violations":  reported,
	}
	eb, _ := json.MarshalIndent(ev, "", " ")
	evPath := filepath.Join(outDir(), "evidence", id+".json")
	_ = os.MkdirAll(filepath.Dir(evPath), 0o755)
	if err := os.WriteFile(evPath, eb, 0o644); err != nil {
		fmt.Fprintln(os.Stderr, "cannot write evidence:", err)
		return exitHarness
	}
	fmt.Printf("%s %s: %d seeded runs, %d executions, %d undecidable, %d non-trivial, %d distinct signatures, %d seam events, %.1fs, violations=%d\n",
		id, tier, total.Runs, total.Execs, total.Skipped, total.NonTrivial, len(sigs), total.Events, wall, reported)
	if len(total.Fired) > 0 {
		fmt.Printf("faults fired: %s\n", fmtMap(total.Fired))
	}
	fmt.Printf("probes: %s\n", fmtMap(total.Probes))
	if reported > 0 {
		return exitViolation
	}
	if harnessTrouble {
		return exitHarness
	}
	if len(stuck) > 0 && tier == checks.Thorough && os.Getenv("VERIF_RUNS") == "" {
		fmt.Fprintf(os.Stderr, "harness trouble: probes stuck at zero in a thorough batch: %v\n", stuck)
		return exitHarness
	}
	if total.Runs > 0 && total.Skipped*2 > total.Runs {
		fmt.Fprintf(os.Stderr, "harness trouble: more than half of the scenarios were undecidable: %v\n", total.SkipReasons)
		return exitHarness
	}
	return exitOK
}

func classOf(path string) string {
	b, err := os.ReadFile(path)
	if err != nil {
		return ""
	}
	var rf replayFile
	if json.Unmarshal(b, &rf) != nil {
		return ""
	}
	return rf.Class
}

// historyOf rewrites the replay file at path so that a replay first executes
// the last k runs its worker process (one of W, taking every W-th run) had
// executed before the recorded run. It returns the history written (nil on
// failure or when there is no earlier run); k == 0 clears it.
func historyOf(path string, W, k int) []int {
	b, err := os.ReadFile(path)
	if err != nil {
		return nil
	}
	var rf replayFile
	if json.Unmarshal(b, &rf) != nil {
		return nil
	}
	var hist []int
	for j, h := 0, rf.RunIndex-W; j < k && h >= 0; j, h = j+1, h-W {
		hist = append([]int{h}, hist...)
	}
	rf.History = hist
	nb, _ := json.MarshalIndent(rf, "", " ")
	if os.WriteFile(path, nb, 0o644) != nil || (k > 0 && len(hist) == 0) {
		return nil
	}
	return hist
}

func restoreOriginal(path string) bool {
	b, err := os.ReadFile(path)
	if err != nil {
		return false
	}
	var rf replayFile
	if json.Unmarshal(b, &rf) != nil || rf.Original == nil {
		return false
	}
	rf.Tapes = rf.Original
	rf.Original = nil
	rf.Minimised = false
	nb, _ := json.MarshalIndent(rf, "", " ")
	return os.WriteFile(path, nb, 0o644) == nil
}

func fmtMap(m map[string]int) string {
	ks := make([]string, 0, len(m))
	for k := range m {
		ks = append(ks, k)
	}
	sort.Strings(ks)
	var sb strings.Builder
	for _, k := range ks {
		fmt.Fprintf(&sb, "%s=%d ", k, m[k])
	}
	return sb.String()
}

func tail(s string, n int) string {
	if len(s) > n {
		return s[len(s)-n:]
	}
	return s
}
