#!/bin/bash
# run.sh <ID> quick|thorough      build the checker against /repo's working tree and run one property
# run.sh <ID> replay <file>       replay one recorded run
# run.sh setup                    build only
set -u
cd "$(dirname "$0")"
export GOFLAGS=-mod=mod GOPROXY=off GOSUMDB=off GOTOOLCHAIN=local CGO_ENABLED=${CGO_ENABLED:-1}
export VERIF_DIR="$(pwd)"
REPO="${VERIF_REPO:-/repo}"
MODFILE=go.mod
if [ "$REPO" != "/repo" ]; then
  # sensitivity runs: point the replace directive at a scratch copy
  MODFILE="$(mktemp -d)/go.mod"
  sed "s#=> /repo#=> $REPO#" go.mod > "$MODFILE"
  cp go.sum "$(dirname "$MODFILE")/go.sum"
fi
build() {
  mkdir -p bin
  if ! go build -modfile="$MODFILE" -tags verif -o bin/check ./cmd/check 2> bin/build.log; then
    echo "BUILD FAILED (harness trouble, not a verdict):" >&2; cat bin/build.log >&2; exit 2
  fi
}
build_race() {
  if ! go build -modfile="$MODFILE" -race -tags verif -o bin/check-race ./cmd/check 2> bin/build-race.log; then
    echo "RACE BUILD FAILED (harness trouble, not a verdict):" >&2; cat bin/build-race.log >&2; exit 2
  fi
}
case "${1:-}" in
  setup) build; build_race; exit 0;;
  selftest) build; build_race; shift
    ids="${*:-C04 C05 C06 C10 C12 C13 C16 C20}"
    bin/check selftest $ids || exit 2
    bin/check-race selftest C17 || exit 2
    exit 0;;
esac
ID="${1:?property id}"; MODE="${2:?quick|thorough|replay}"
BIN=bin/check
build
if [ "$ID" = "C17" ]; then build_race; BIN=bin/check-race; fi
case "$MODE" in
  quick|thorough) exec "$BIN" run "$ID" "$MODE";;
  replay) exec "$BIN" replay "$ID" "${3:?replay file}";;
  *) echo "usage: run.sh <ID> quick|thorough|replay <file>" >&2; exit 2;;
esac
