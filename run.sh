#!/bin/bash
# run.sh <ID> quick|thorough      build the checker against /repo's working tree and run one property
# run.sh <ID> replay <file>       replay one recorded run
# run.sh setup                    build only
set -u
cd "$(dirname "$0")"
export GOFLAGS=-mod=mod GOPROXY=off GOSUMDB=off GOTOOLCHAIN=local CGO_ENABLED=${CGO_ENABLED:-1}
export VERIF_DIR="$(pwd)"
REPO="${VERIF_REPO:-/repo}"
MODFILE=go.mod
BINDIR=bin
if [ "$REPO" != "/repo" ]; then
  # sensitivity runs: point the replace directive at a scratch copy and build
  # into a private directory, so that concurrent runs never share binaries
  BINDIR="$(mktemp -d)"
  MODFILE="$BINDIR/go.mod"
  sed "s#=> /repo#=> $REPO#" go.mod > "$MODFILE"
  cp go.sum "$BINDIR/go.sum"
  trap 'rm -rf "$BINDIR"' EXIT
  export VERIF_OUT="${VERIF_OUT:-/tmp/verif-scratch-out}"
  mkdir -p "$VERIF_OUT"
fi
build() {
  mkdir -p "$BINDIR"
  if ! go build -modfile="$MODFILE" -tags verif -o "$BINDIR/check" ./cmd/check 2> "$BINDIR/build.log"; then
    echo "BUILD FAILED (harness trouble, not a verdict):" >&2; cat "$BINDIR/build.log" >&2; exit 2
  fi
}
build_race() {
  if ! go build -modfile="$MODFILE" -race -tags verif -o "$BINDIR/check-race" ./cmd/check 2> "$BINDIR/build-race.log"; then
    echo "RACE BUILD FAILED (harness trouble, not a verdict):" >&2; cat "$BINDIR/build-race.log" >&2; exit 2
  fi
}
case "${1:-}" in
  setup) build; build_race; exit 0;;
  selftest) build; build_race; shift
    ids="${*:-C04 C05 C06 C10 C12 C13 C16 C20}"
    "$BINDIR/check" selftest $ids || exit 2
    "$BINDIR/check-race" selftest C17 || exit 2
    exit 0;;
esac
ID="${1:?property id}"; MODE="${2:?quick|thorough|replay}"
BIN="$BINDIR/check"
build
if [ "$ID" = "C17" ]; then build_race; BIN="$BINDIR/check-race"; fi
case "$MODE" in
  quick|thorough) "$BIN" run "$ID" "$MODE"; exit $?;;
  replay) "$BIN" replay "$ID" "${3:?replay file}"; exit $?;;
  *) echo "usage: run.sh <ID> quick|thorough|replay <file>" >&2; exit 2;;
esac
