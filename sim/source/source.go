// Package source is SimSource: the simulated input stream handed to the file
// builder. It fragments delivery under a seeded schedule and can fail at a
// chosen byte.
package source

import (
	"fmt"
	"io"

	"verif/sim/tape"
)

// Mode is a fragmentation schedule.
type Mode int

const (
	Whole        Mode = iota // as much as the caller asks for
	OneByte                  // one byte per Read
	Random                   // random fragment sizes
	ZeroReads                // random fragments interleaved with (0, nil) reads
	EOFWithData              // like Random, and the last fragment arrives together with io.EOF
	ChunkAligned             // fragments of exactly Align bytes
	NModes
)

func (m Mode) String() string {
	return [...]string{"whole", "one-byte", "random", "zero-reads", "eof-with-data", "chunk-aligned"}[m]
}

// Seekable is an io.ReadSeeker over data that is NOT an *os.File and has no
// Len(): what a caller hands over after reading a header off the front of a
// stream. The bytes from its current position on are the logical input.
type Seekable struct {
	data  []byte
	off   int64
	Seeks int
}

func NewSeekable(data []byte, off int64) *Seekable { return &Seekable{data: data, off: off} }

func (s *Seekable) Read(p []byte) (int, error) {
	if s.off >= int64(len(s.data)) {
		return 0, io.EOF
	}
	n := copy(p, s.data[s.off:])
	s.off += int64(n)
	return n, nil
}

func (s *Seekable) Seek(offset int64, whence int) (int64, error) {
	s.Seeks++
	var n int64
	switch whence {
	case io.SeekStart:
		n = offset
	case io.SeekCurrent:
		n = s.off + offset
	case io.SeekEnd:
		n = int64(len(s.data)) + offset
	}
	if n < 0 {
		return s.off, fmt.Errorf("negative position")
	}
	s.off = n
	return n, nil
}

// ErrInjected is the source-side injected failure.
type ErrInjected struct{ At int }

func (e *ErrInjected) Error() string {
	return fmt.Sprintf("simsource injected read error at byte %d", e.At)
}

// Source is an io.Reader over fixed data.
type Source struct {
	data   []byte
	off    int
	mode   Mode
	rng    *tape.SplitMix64
	Align  int
	FailAt int // -1: never
	Reads  int
	Failed bool
}

func New(data []byte, mode Mode, seed uint64) *Source {
	return &Source{data: data, mode: mode, rng: tape.NewSplitMix(seed), FailAt: -1, Align: 16}
}

func (s *Source) Read(p []byte) (int, error) {
	s.Reads++
	if len(p) == 0 {
		return 0, nil
	}
	if s.FailAt >= 0 && s.off >= s.FailAt {
		s.Failed = true
		return 0, &ErrInjected{At: s.off}
	}
	if s.off >= len(s.data) {
		return 0, io.EOF
	}
	rem := len(s.data) - s.off
	if s.FailAt >= 0 && s.off+rem > s.FailAt {
		rem = s.FailAt - s.off
	}
	n := rem
	if n > len(p) {
		n = len(p)
	}
	switch s.mode {
	case OneByte:
		n = 1
	case Random, EOFWithData:
		n = 1 + int(s.rng.Next()%uint64(n))
	case ZeroReads:
		v := s.rng.Next()
		if v%3 == 0 {
			return 0, nil
		}
		n = 1 + int((v>>8)%uint64(n))
	case ChunkAligned:
		if s.Align > 0 && n > s.Align {
			n = s.Align
		}
	}
	copy(p, s.data[s.off:s.off+n])
	s.off += n
	if s.mode == EOFWithData && s.off >= len(s.data) && s.FailAt < 0 {
		return n, io.EOF
	}
	return n, nil
}
