// Package world wires a SimStore behind a real ipld.LinkSystem (real codecs,
// real sha2-256) with the UnixFS reifiers registered.
package world

import (
	unixfsnode "github.com/ipfs/go-unixfsnode"
	dagpb "github.com/ipld/go-codec-dagpb"
	"github.com/ipld/go-ipld-prime"
	_ "github.com/ipld/go-ipld-prime/codec/dagcbor" // deployments register more codecs than dag-pb and raw
	_ "github.com/ipld/go-ipld-prime/codec/raw"
	"github.com/ipld/go-ipld-prime/datamodel"
	cidlink "github.com/ipld/go-ipld-prime/linking/cid"
	"github.com/ipld/go-ipld-prime/node/basicnode"
	"github.com/ipfs/go-cid"

	"verif/sim/store"
)

var _ = dagpb.Type

// World is one simulated deployment: a disk and a link system over it.
type World struct {
	Store *store.Store
	LS    ipld.LinkSystem
}

// New builds a world over st. trusted sets LinkSystem.TrustedStorage.
func New(st *store.Store, trusted bool) *World {
	w := &World{Store: st}
	ls := cidlink.DefaultLinkSystem()
	ls.StorageReadOpener = st.ReadOpener
	ls.StorageWriteOpener = st.WriteOpener
	ls.TrustedStorage = trusted
	unixfsnode.AddUnixFSReificationToLinkSystem(&ls)
	w.LS = ls
	return w
}

// ProtoFor picks the prototype a traversal would use for a link.
func ProtoFor(c cid.Cid) datamodel.NodePrototype {
	if c.Prefix().Codec == cid.DagProtobuf {
		return dagpb.Type.PBNode
	}
	return basicnode.Prototype.Any
}

// NewWithNodeReifier is New with LinkSystem.NodeReifier = unixfsnode.Reify:
// every Load through the link system then returns an already (lazily)
// reified node. This is how boxo's gateway back-ends configure their link
// system, besides (or instead of) the named reifiers.
func NewWithNodeReifier(st *store.Store, trusted bool) *World {
	w := New(st, trusted)
	w.LS.NodeReifier = unixfsnode.Reify
	return w
}

// LoadRoot loads the block behind c through the link system (one storage
// read) without reification.
func (w *World) LoadRoot(c cid.Cid) (datamodel.Node, error) {
	return w.LS.Load(ipld.LinkContext{}, cidlink.Link{Cid: c}, ProtoFor(c))
}

// Reify loads c and reifies it through the lazy UnixFS view.
func (w *World) Reify(c cid.Cid) (datamodel.Node, error) {
	n, err := w.LoadRoot(c)
	if err != nil {
		return nil, err
	}
	return unixfsnode.Reify(ipld.LinkContext{}, n, &w.LS)
}

// ReifyPreload loads c and reifies it through the preloading view.
func (w *World) ReifyPreload(c cid.Cid) (datamodel.Node, error) {
	n, err := w.LoadRoot(c)
	if err != nil {
		return nil, err
	}
	return w.LS.KnownReifiers["unixfs-preload"](ipld.LinkContext{}, n, &w.LS)
}
