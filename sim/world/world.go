// Package world wires a SimStore behind a real ipld.LinkSystem (real codecs,
// real sha2-256) with the UnixFS reifiers registered.
package world

import (
	"bytes"
	"context"
	"fmt"
	"io"

	"github.com/ipfs/go-cid"
	unixfsnode "github.com/ipfs/go-unixfsnode"
	dagpb "github.com/ipld/go-codec-dagpb"
	"github.com/ipld/go-ipld-prime"
	_ "github.com/ipld/go-ipld-prime/codec/dagcbor" // deployments register more codecs than dag-pb and raw
	_ "github.com/ipld/go-ipld-prime/codec/raw"
	"github.com/ipld/go-ipld-prime/datamodel"
	"github.com/ipld/go-ipld-prime/linking"
	cidlink "github.com/ipld/go-ipld-prime/linking/cid"
	"github.com/ipld/go-ipld-prime/node/basicnode"

	"verif/sim/store"
)

var _ = dagpb.Type

// World is one simulated deployment: a disk and a link system over it.
type World struct {
	Store *store.Store
	LS    ipld.LinkSystem
	// Ctx is the context passed to Reify by the helpers below; nil is legal
	// (go-ipld-prime fills in a background context for its own use) and is
	// what callers that have no context pass.
	Ctx context.Context
}

// New builds a world over st. trusted sets LinkSystem.TrustedStorage.
func New(st *store.Store, trusted bool) *World {
	neighbour()
	w := &World{Store: st}
	ls := cidlink.DefaultLinkSystem()
	ls.StorageReadOpener = st.ReadOpener
	ls.StorageWriteOpener = st.WriteOpener
	ls.TrustedStorage = trusted
	unixfsnode.AddUnixFSReificationToLinkSystem(&ls)
	w.LS = ls
	return w
}

// neighbour: another component of the same process sets up a link system of
// its own, installs the UnixFS reifiers on it and then customises ITS OWN
// table (it wants the lazy view under both names). A link system is a value
// with its own KnownReifiers map; what one owner does to its map is nobody
// else's business, so this must leave every other link system untouched.
func neighbour() {
	n := cidlink.DefaultLinkSystem()
	unixfsnode.AddUnixFSReificationToLinkSystem(&n)
	if n.KnownReifiers != nil {
		n.KnownReifiers["unixfs-preload"] = unixfsnode.Reify
		delete(n.KnownReifiers, "unixfs")
	}
}

// ProtoFor picks the prototype a traversal would use for a link.
func ProtoFor(c cid.Cid) datamodel.NodePrototype {
	if c.Prefix().Codec == cid.DagProtobuf {
		return dagpb.Type.PBNode
	}
	return basicnode.Prototype.Any
}

// NewDerived builds the link system the way a server does: the UnixFS
// reifiers are installed ONCE on a base link system (whose storage here is an
// un-instrumented bypass straight to the durable map), and every request
// works on a struct copy of it whose storage callbacks are replaced by the
// instrumented ones (here: the simulated store with its log and faults). The
// copy shares the KnownReifiers map with the base. Whatever the library loads
// must go through the link system it is HANDED, i.e. the copy.
func NewDerived(st *store.Store, trusted bool) *World {
	base := cidlink.DefaultLinkSystem()
	base.TrustedStorage = trusted
	base.StorageReadOpener = func(_ linking.LinkContext, l datamodel.Link) (io.Reader, error) {
		cl, ok := l.(cidlink.Link)
		if !ok {
			return nil, fmt.Errorf("unsupported link type %T", l)
		}
		b, ok := st.Get(cl.Cid)
		if !ok {
			return nil, fmt.Errorf("bypass store: block not found")
		}
		return bytes.NewReader(b), nil
	}
	unixfsnode.AddUnixFSReificationToLinkSystem(&base)
	derived := base
	derived.StorageReadOpener = st.ReadOpener
	derived.StorageWriteOpener = st.WriteOpener
	return &World{Store: st, LS: derived}
}

// NewWithNodeReifier is New with LinkSystem.NodeReifier = unixfsnode.Reify:
// every Load through the link system then returns an already (lazily)
// reified node. This is how boxo's gateway back-ends configure their link
// system, besides (or instead of) the named reifiers.
func NewWithNodeReifier(st *store.Store, trusted bool) *World {
	w := New(st, trusted)
	w.LS.NodeReifier = unixfsnode.Reify
	return w
}

// LoadRoot loads the block behind c through the link system (one storage
// read) without reification.
func (w *World) LoadRoot(c cid.Cid) (datamodel.Node, error) {
	return w.LS.Load(ipld.LinkContext{}, cidlink.Link{Cid: c}, ProtoFor(c))
}

// Reify loads c and reifies it through the lazy UnixFS view.
func (w *World) Reify(c cid.Cid) (datamodel.Node, error) {
	n, err := w.LoadRoot(c)
	if err != nil {
		return nil, err
	}
	// a real context, as callers pass one (the zero LinkContext is what the
	// other entry points of this type use)
	return unixfsnode.Reify(ipld.LinkContext{Ctx: w.Ctx}, n, &w.LS)
}

// ReifyPreload loads c and reifies it through the preloading view.
func (w *World) ReifyPreload(c cid.Cid) (datamodel.Node, error) {
	n, err := w.LoadRoot(c)
	if err != nil {
		return nil, err
	}
	return w.LS.KnownReifiers["unixfs-preload"](ipld.LinkContext{}, n, &w.LS)
}
