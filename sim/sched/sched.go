// Package sched is SimSched: real goroutines, exactly one runnable at a time,
// released at park points by a scheduler whose every choice comes from a tape.
//
// Hand-offs between the scheduler and the tasks are hidden from the race
// detector (runtime.RaceDisable/RaceEnable around the channel operations), so
// the happens-before relation the detector sees between tasks is exactly the
// one created by the code under test's own synchronisation. Consequences for
// this package: state shared between goroutines is only touched inside
// //go:norace functions and is never a Go map.
package sched

import "sync"

type task struct {
	id     int
	resume chan struct{}
	done   bool
	fn     func()
	panicV any
}

// Sched runs tasks one at a time.
type Sched struct {
	tasks   []*task
	notify  chan int
	running int
	// Pick chooses among n parked tasks (0 <= result < n).
	Pick func(n int) int
	// Trace is the sequence of task ids released, one per scheduling step.
	Trace []int
	// Steps is the global step counter (simulated time for C17).
	Steps int
	wg    sync.WaitGroup
}

func New(pick func(n int) int) *Sched {
	return &Sched{notify: make(chan int), Pick: pick, running: -1}
}

// Go registers a task. Must be called before Run.
func (s *Sched) Go(fn func()) int {
	t := &task{id: len(s.tasks), resume: make(chan struct{}), fn: fn}
	s.tasks = append(s.tasks, t)
	return t.id
}

//go:norace
func (s *Sched) setRunning(id int) { s.running = id }

// Running returns the id of the task currently released (valid inside a task).
//
//go:norace
func (s *Sched) Running() int { return s.running }

//go:norace
func (t *task) setDone(v any) { t.done = true; t.panicV = v }

//go:norace
func (t *task) isDone() bool { return t.done }

//go:norace
func (t *task) panicValue() any { return t.panicV }

// hidden hand-off primitives ------------------------------------------------

//go:norace
func (s *Sched) taskPark(t *task) {
	raceDisable()
	s.notify <- t.id
	<-t.resume
	raceEnable()
}

//go:norace
func (s *Sched) taskFinish(t *task) {
	raceDisable()
	s.notify <- t.id
	raceEnable()
}

//go:norace
func (s *Sched) release(t *task) {
	raceDisable()
	t.resume <- struct{}{}
	<-s.notify
	raceEnable()
}

//go:norace
func (s *Sched) awaitInitial() {
	raceDisable()
	<-s.notify
	raceEnable()
}

// Yield is a park point: the calling task stops until the scheduler releases
// it again. Must only be called from inside a task.
//
//go:norace
func (s *Sched) Yield() {
	id := s.running
	if id < 0 || id >= len(s.tasks) {
		return
	}
	s.taskPark(s.tasks[id])
}

// Run starts every task (each parks immediately), then releases one parked
// task at a time until all have finished. It returns the panic values of the
// tasks (nil entries for tasks that returned normally).
func (s *Sched) Run() []any {
	for _, t := range s.tasks {
		t := t
		s.wg.Add(1)
		go func() {
			defer s.wg.Done() // the one real barrier, after everything
			s.taskPark(t)
			func() {
				defer func() {
					r := recover()
					t.setDone(r)
				}()
				t.fn()
			}()
			s.taskFinish(t)
		}()
		s.awaitInitial()
	}
	live := make([]*task, len(s.tasks))
	copy(live, s.tasks)
	for len(live) > 0 {
		i := 0
		if len(live) > 1 {
			i = s.Pick(len(live))
			if i < 0 || i >= len(live) {
				i = 0
			}
		}
		t := live[i]
		s.Trace = append(s.Trace, t.id)
		s.Steps++
		s.setRunning(t.id)
		s.release(t)
		if t.isDone() {
			live = append(live[:i], live[i+1:]...)
		}
	}
	s.setRunning(-1)
	s.wg.Wait()
	out := make([]any, len(s.tasks))
	for i, t := range s.tasks {
		out[i] = t.panicValue()
	}
	return out
}
