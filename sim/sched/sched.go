// Package sched is SimSched: real goroutines, exactly one runnable at a time,
// released at park points by a scheduler whose every choice comes from a tape.
//
// Hand-offs between the scheduler and the tasks are hidden from the race
// detector (runtime.RaceDisable/RaceEnable around the channel operations), so
// the happens-before relation the detector sees between tasks is exactly the
// one created by the code under test's own synchronisation. Consequences for
// this package: state shared between goroutines is only touched inside
// //go:norace functions and is never a Go map.
//
// A task may also block inside the code under test (waiting for something
// another, parked, task will do: a single-flight load, a condition variable).
// The scheduler cannot see that wait directly. When the released task neither
// parks nor finishes within BlockedAfter the scheduler takes ONE consistent
// snapshot of all goroutine states (runtime.Stack with all=true stops the
// world): if no goroutine that belongs to this run is running, runnable, in a
// system call or asleep, nothing can happen until the scheduler acts, so the
// silent tasks are blocked in the library and another parked task is released.
// When the blocked task wakes up it runs until its next park point,
// concurrently with whatever task is released at that moment: in such runs the
// "one at a time" rule is relaxed for that stretch. A run in which every
// remaining task is blocked and, again by snapshot, nothing can run, is a
// deadlock. The wall-clock intervals only decide WHEN the scheduler looks; the
// verdicts "blocked" and "deadlocked" are functions of the program state, so a
// slow or overloaded machine cannot produce them.
package sched

import (
	"runtime"
	"strings"
	"sync"
	"time"
)

type state int

const (
	stParked state = iota
	stOut
	stBlocked
	stDone
)

type task struct {
	id     int
	resume chan struct{}
	done   bool
	fn     func()
	panicV any
	gid    uint64
	st     state // scheduler-side only
}

// Sched runs tasks one at a time.
type Sched struct {
	tasks  []*task
	notify chan int
	// Pick chooses among n parked tasks (0 <= result < n).
	Pick func(n int) int
	// Trace is the sequence of task ids released, one per scheduling step.
	Trace []int
	// Steps is the global step counter (simulated time for C17).
	Steps int
	// BlockedAfter is how long a released task may stay silent before it is
	// considered blocked inside the code under test.
	BlockedAfter time.Duration
	// DeadlockAfter is how long the scheduler waits, once only blocked tasks
	// remain, before it reports a deadlock.
	DeadlockAfter time.Duration
	// BlockedEvents counts how often a task was found blocked in the library.
	BlockedEvents int
	// Deadlocked is set when every unfinished task ended up blocked.
	Deadlocked bool
	// SlowWaits counts timeouts at which the snapshot showed a goroutine still
	// at work (a slow step, not a blocked one): a measure of machine load only.
	SlowWaits int
	wg        sync.WaitGroup
	// goroutines that existed before Run (the harness's own: watchdogs, what
	// earlier runs left behind); they never count as "this run can progress"
	preexisting map[uint64]bool
}

func New(pick func(n int) int) *Sched {
	return &Sched{notify: make(chan int, 64), Pick: pick, BlockedAfter: 250 * time.Millisecond, DeadlockAfter: 2 * time.Second}
}

// goroutineStates returns id -> state ("running", "runnable", "chan receive",
// "sync.Mutex.Lock", ...) of every goroutine from one stop-the-world snapshot.
func goroutineStates() map[uint64]string {
	buf := make([]byte, 1<<20)
	for {
		n := runtime.Stack(buf, true)
		if n < len(buf) || len(buf) >= 256<<20 {
			buf = buf[:n]
			break
		}
		buf = make([]byte, 2*len(buf))
	}
	out := map[uint64]string{}
	for _, blk := range strings.Split(string(buf), "\n\n") {
		if !strings.HasPrefix(blk, "goroutine ") {
			continue
		}
		hdr := blk
		if i := strings.IndexByte(hdr, '\n'); i >= 0 {
			hdr = hdr[:i]
		}
		rest := hdr[len("goroutine "):]
		var id uint64
		i := 0
		for ; i < len(rest) && rest[i] >= '0' && rest[i] <= '9'; i++ {
			id = id*10 + uint64(rest[i]-'0')
		}
		lb, rb := strings.IndexByte(rest, '['), strings.LastIndexByte(rest, ']')
		if i == 0 || lb < 0 || rb < lb {
			continue
		}
		st := rest[lb+1 : rb]
		if c := strings.IndexByte(st, ','); c >= 0 {
			st = st[:c]
		}
		if strings.Contains(blk, "os/signal.signal_recv") || strings.Contains(blk, "runtime.ensureSigM") {
			st = "signal-wait" // parked in a system call for good
		}
		out[id] = st
	}
	return out
}

// canProgress reports, from one snapshot, whether any goroutine of this run
// other than the scheduler can still do something by itself.
func (s *Sched) canProgress() bool {
	me := curGID()
	for id, st := range goroutineStates() {
		if id == me || s.preexisting[id] {
			continue
		}
		switch st {
		case "running", "runnable", "syscall", "sleep", "IO wait":
			return true
		}
	}
	return false
}

// Go registers a task. Must be called before Run.
func (s *Sched) Go(fn func()) int {
	t := &task{id: len(s.tasks), resume: make(chan struct{}), fn: fn}
	s.tasks = append(s.tasks, t)
	return t.id
}

func curGID() uint64 {
	var buf [64]byte
	n := runtime.Stack(buf[:], false)
	var id uint64
	for _, c := range buf[len("goroutine "):n] {
		if c < '0' || c > '9' {
			break
		}
		id = id*10 + uint64(c-'0')
	}
	return id
}

//go:norace
func (t *task) setGID(g uint64) { t.gid = g }

//go:norace
func (s *Sched) taskOfGID(g uint64) *task {
	for _, t := range s.tasks {
		if t.gid == g {
			return t
		}
	}
	return nil
}

// Running returns the id of the calling task, or -1 when the caller is not a
// task goroutine.
//
//go:norace
func (s *Sched) Running() int {
	if t := s.taskOfGID(curGID()); t != nil {
		return t.id
	}
	return -1
}

//go:norace
func (t *task) setDone(v any) { t.done = true; t.panicV = v }

//go:norace
func (t *task) isDone() bool { return t.done }

//go:norace
func (t *task) panicValue() any { return t.panicV }

// hidden hand-off primitives ------------------------------------------------

//go:norace
func (s *Sched) taskPark(t *task) {
	raceDisable()
	s.notify <- t.id
	<-t.resume
	raceEnable()
}

//go:norace
func (s *Sched) taskFinish(t *task) {
	raceDisable()
	s.notify <- t.id
	raceEnable()
}

//go:norace
func (s *Sched) resumeTask(t *task) {
	raceDisable()
	t.resume <- struct{}{}
	raceEnable()
}

// recvNotify waits for one notification; ok is false on timeout.
//
//go:norace
func (s *Sched) recvNotify(d time.Duration) (id int, ok bool) {
	raceDisable()
	defer raceEnable()
	if d <= 0 {
		select {
		case id = <-s.notify:
			return id, true
		default:
			return 0, false
		}
	}
	tm := time.NewTimer(d)
	defer tm.Stop()
	select {
	case id = <-s.notify:
		return id, true
	case <-tm.C:
		return 0, false
	}
}

// Yield is a park point: the calling task stops until the scheduler releases
// it again. Must only be called from inside a task.
//
//go:norace
func (s *Sched) Yield() {
	if t := s.taskOfGID(curGID()); t != nil {
		s.taskPark(t)
	}
}

func (s *Sched) noted(id int) {
	t := s.tasks[id]
	if t.isDone() {
		t.st = stDone
	} else {
		t.st = stParked
	}
}

// settle waits until no task is "out": each one has parked, finished, or been
// silent for BlockedAfter (then it is blocked in the library).
func (s *Sched) settle() {
	for {
		out := 0
		for _, t := range s.tasks {
			if t.st == stOut {
				out++
			}
		}
		if out == 0 {
			break
		}
		id, ok := s.recvNotify(s.BlockedAfter)
		if !ok {
			if s.canProgress() {
				s.SlowWaits++
				continue // a slow step, not a blocked one
			}
			// nothing can run; a notification may have been sent just before
			// the snapshot
			if id, ok := s.recvNotify(0); ok {
				s.noted(id)
				continue
			}
			for _, t := range s.tasks {
				if t.st == stOut {
					t.st = stBlocked
					s.BlockedEvents++
				}
			}
			break
		}
		s.noted(id)
	}
	// tasks that were blocked may have been woken by what just ran
	for {
		id, ok := s.recvNotify(0)
		if !ok {
			break
		}
		s.noted(id)
	}
}

// Run starts every task (each parks immediately), then releases one parked
// task at a time until all have finished. It returns the panic values of the
// tasks (nil entries for tasks that returned normally).
func (s *Sched) Run() []any {
	s.preexisting = map[uint64]bool{}
	for id := range goroutineStates() {
		s.preexisting[id] = true
	}
	for _, t := range s.tasks {
		t := t
		t.st = stOut
		s.wg.Add(1)
		go func() {
			defer s.wg.Done() // the one real barrier, after everything
			t.setGID(curGID())
			s.taskPark(t)
			func() {
				defer func() {
					r := recover()
					t.setDone(r)
				}()
				t.fn()
			}()
			s.taskFinish(t)
		}()
		s.settle()
	}
	for {
		var parked []*task
		live, blocked := 0, 0
		for _, t := range s.tasks {
			switch t.st {
			case stParked:
				parked = append(parked, t)
				live++
			case stBlocked:
				blocked++
				live++
			case stOut:
				live++
			}
		}
		if live == 0 {
			break
		}
		if len(parked) == 0 {
			// only blocked tasks remain. One of them may have been woken by what
			// ran last and be on its way to a park point: as long as the
			// snapshot shows anything of this run at work, keep waiting (the
			// per-run wall-clock watchdog of the driver bounds that).
			if id, ok := s.recvNotify(s.DeadlockAfter); ok {
				s.noted(id)
				continue
			}
			if s.canProgress() {
				s.SlowWaits++
				continue
			}
			if id, ok := s.recvNotify(0); ok {
				s.noted(id)
				continue
			}
			s.Deadlocked = true
			break
		}
		i := 0
		if len(parked) > 1 {
			i = s.Pick(len(parked))
			if i < 0 || i >= len(parked) {
				i = 0
			}
		}
		t := parked[i]
		s.Trace = append(s.Trace, t.id)
		s.Steps++
		t.st = stOut
		s.resumeTask(t)
		s.settle()
	}
	if !s.Deadlocked {
		s.wg.Wait()
	}
	out := make([]any, len(s.tasks))
	for i, t := range s.tasks {
		out[i] = t.panicValue()
	}
	return out
}
