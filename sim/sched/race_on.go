//go:build race

package sched

import "runtime"

// RaceEnabled reports whether the binary was built with the race detector.
const RaceEnabled = true

func raceDisable() { runtime.RaceDisable() }
func raceEnable()  { runtime.RaceEnable() }
