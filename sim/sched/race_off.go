//go:build !race

package sched

// RaceEnabled reports whether the binary was built with the race detector.
const RaceEnabled = false

func raceDisable() {}
func raceEnable()  {}
