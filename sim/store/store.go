// Package store is SimStore: the simulated content-addressed disk that sits
// behind ipld.LinkSystem's StorageReadOpener / StorageWriteOpener. It logs every
// request, decides per request whether and how it fails, fragments streams,
// can corrupt returned bytes, and can freeze ("crash") keeping only what was
// committed.
package store

import (
	"bytes"
	"fmt"
	"io"
	"runtime"
	"sort"
	"sync"

	"github.com/ipfs/go-cid"
	"github.com/ipld/go-ipld-prime/datamodel"
	"github.com/ipld/go-ipld-prime/linking"
	cidlink "github.com/ipld/go-ipld-prime/linking/cid"
)

// FaultKind enumerates what the simulated disk can do to one request.
type FaultKind int

const (
	None FaultKind = iota
	NotFound
	EIOOpen
	EIOMid
	Corrupt // bytes replaced (hash check decides whether the SUT sees them)
	CommitFail
	ENOSPC
	Crash
)

func (k FaultKind) String() string {
	switch k {
	case None:
		return "none"
	case NotFound:
		return "notfound"
	case EIOOpen:
		return "eio-open"
	case EIOMid:
		return "eio-mid"
	case Corrupt:
		return "corrupt"
	case CommitFail:
		return "commit-fail"
	case ENOSPC:
		return "enospc"
	case Crash:
		return "crash"
	}
	return "?"
}

// InjectedError is every error the store makes up. Token is unique per
// injection so oracles can recognise it even through non-%w wrapping.
type InjectedError struct {
	Token    string
	Kind     FaultKind
	notFound bool
}

func (e *InjectedError) Error() string {
	return fmt.Sprintf("simstore injected %s [%s]", e.Kind, e.Token)
}

// NotFound lets callers that feature-detect "not found" see it.
func (e *InjectedError) NotFound() bool { return e.notFound }

// ReadFault is the decision for one read request.
type ReadFault struct {
	Kind    FaultKind
	After   int    // EIOMid: bytes delivered before the error
	Replace []byte // Corrupt: bytes delivered instead
	// Err, if set, is returned instead of an InjectedError: real stores fail
	// with well-known error values (io.ErrUnexpectedEOF for a block file cut
	// short, a *fs.PathError wrapping fs.ErrNotExist, ...), and code that
	// special-cases such values must not mistake them for something else.
	Err error
}

// WritePoint identifies a step of the write protocol.
type WritePoint int

const (
	WOpen WritePoint = iota
	WWrite
	WCommit
)

func (p WritePoint) String() string { return [...]string{"open", "write", "commit"}[p] }

// WriteFault is the decision for one write-side step.
type WriteFault struct {
	Kind  FaultKind
	After int   // EIOMid on WWrite: bytes accepted before the error
	Err   error // see ReadFault.Err
}

// Event is one entry of the seam log.
type Event struct {
	Seq     int    `json:"seq"`
	Kind    string `json:"kind"`
	Cid     string `json:"cid,omitempty"`
	Task    int    `json:"task"`
	Outcome string `json:"outcome,omitempty"`
	N       int    `json:"n,omitempty"`
}

// Store is the simulated disk.
type Store struct {
	durable map[string][]byte
	order   []string // commit order of keys (first commit)

	Log []Event
	seq int

	// ReadPolicy decides the fate of a read. nth counts read opens from 0.
	ReadPolicy func(nth int, c cid.Cid) *ReadFault
	// Frag, if set, returns the size of the next fragment (>=0; 0 means an empty
	// read without error) for read streams.
	Frag func(remaining int) int
	// WritePolicy decides the fate of one write-protocol step. nth counts steps
	// of that kind from 0; ev is the global write-side event index.
	WritePolicy func(p WritePoint, nth int, ev int) *WriteFault
	// OnCommit is called after a block became durable.
	OnCommit func(c cid.Cid, data []byte)
	// Yield is the scheduler park point, called at the start of every read.
	Yield func()
	// CurTask reports the running task id for the log.
	CurTask func() int

	frozen     bool
	reads      int
	wsteps     [3]int
	wevents    int
	tokens     int
	durableLen int
	Quota      int // ENOSPC after this many durable bytes (0 = unlimited)
	// TornCommits counts commits of buffers whose Write had failed.
	TornCommits int

	Fired map[string]int // fault kind -> times it actually fired
	// ReadCids is the ordered list of requested CIDs (every request).
	ReadCids []cid.Cid

	// mu serialises the read seam: code under test that fans requests out over
	// goroutines of its own must not corrupt the simulated disk, and the
	// number of distinct goroutines seen is itself an observation.
	mu        sync.Mutex
	TrackGIDs bool
	gids      map[uint64]bool
}

// ReaderGoroutines is the number of distinct goroutines that issued read
// requests since the last ResetLog (only counted when TrackGIDs is set).
func (s *Store) ReaderGoroutines() int { return len(s.gids) }

func curGID() uint64 {
	var buf [64]byte
	n := runtime.Stack(buf[:], false)
	// "goroutine 123 [running]:..."
	var id uint64
	for _, c := range buf[len("goroutine "):n] {
		if c < '0' || c > '9' {
			break
		}
		id = id*10 + uint64(c-'0')
	}
	return id
}

func New() *Store {
	return &Store{durable: map[string][]byte{}, Fired: map[string]int{}}
}

func (s *Store) task() int {
	if s.CurTask != nil {
		return s.CurTask()
	}
	return 0
}

func (s *Store) log(kind string, c cid.Cid, outcome string, n int) {
	e := Event{Seq: s.seq, Kind: kind, Task: s.task(), Outcome: outcome, N: n}
	if c.Defined() {
		e.Cid = c.String()
	}
	s.seq++
	s.Log = append(s.Log, e)
}

// Seq is the global event counter ("simulated time").
func (s *Store) Seq() int { return s.seq }

func (s *Store) inject(kind FaultKind, notFound bool) *InjectedError {
	s.tokens++
	s.Fired[kind.String()]++
	return &InjectedError{Token: fmt.Sprintf("tok-%d-%d", s.seq, s.tokens), Kind: kind, notFound: notFound}
}

// injectAs counts the fault and returns override when it is set.
func (s *Store) injectAs(kind FaultKind, notFound bool, override error) error {
	e := s.inject(kind, notFound)
	if override != nil {
		s.Fired["flavoured-error"]++
		return override
	}
	return e
}

// Put stores a block directly (harness-side, not logged).
func (s *Store) Put(c cid.Cid, data []byte) {
	k := c.KeyString()
	if _, ok := s.durable[k]; !ok {
		s.order = append(s.order, k)
	}
	s.durable[k] = append([]byte(nil), data...)
}

// Get returns a stored block (harness-side, not logged).
func (s *Store) Get(c cid.Cid) ([]byte, bool) {
	b, ok := s.durable[c.KeyString()]
	return b, ok
}

// Has reports durability.
func (s *Store) Has(c cid.Cid) bool { _, ok := s.durable[c.KeyString()]; return ok }

// Delete removes a block (harness-side).
func (s *Store) Delete(c cid.Cid) { delete(s.durable, c.KeyString()) }

// Keys returns all durable CIDs in commit order.
func (s *Store) Keys() []cid.Cid {
	out := make([]cid.Cid, 0, len(s.order))
	for _, k := range s.order {
		if _, ok := s.durable[k]; !ok {
			continue
		}
		c, err := cid.Cast([]byte(k))
		if err == nil {
			out = append(out, c)
		}
	}
	return out
}

// SortedKeys returns all durable CIDs sorted by binary form.
func (s *Store) SortedKeys() []cid.Cid {
	ks := s.Keys()
	sort.Slice(ks, func(i, j int) bool { return ks[i].KeyString() < ks[j].KeyString() })
	return ks
}

// Snapshot returns a read-only view of the durable blocks keyed by
// cid.KeyString(). The caller must not mutate it.
func (s *Store) Snapshot() map[string][]byte {
	m := make(map[string][]byte, len(s.durable))
	for k, v := range s.durable {
		m[k] = v
	}
	return m
}

// Len is the number of durable blocks.
func (s *Store) Len() int { return len(s.durable) }

// TotalBytes sums the durable block sizes.
func (s *Store) TotalBytes() int {
	n := 0
	for _, b := range s.durable {
		n += len(b)
	}
	return n
}

// ResetLog clears the log and counters but keeps durable state and policies.
func (s *Store) ResetLog() {
	s.Log = nil
	s.ReadCids = nil
	s.reads = 0
	s.gids = nil
}

// SetReadCount sets the counter that numbers read requests (the nth argument
// of ReadPolicy), e.g. after ResetLog when an earlier request is to keep its
// number.
func (s *Store) SetReadCount(n int) { s.reads = n }

// Restart returns a fresh store holding only the durable state: what a
// process restarted after a crash would see.
func (s *Store) Restart() *Store {
	n := New()
	for _, k := range s.order {
		if b, ok := s.durable[k]; ok {
			n.durable[k] = b
			n.order = append(n.order, k)
		}
	}
	return n
}

// Frozen reports whether a crash happened.
func (s *Store) Frozen() bool { return s.frozen }

// ---------------------------------------------------------------- read side

type simReader struct {
	s      *Store
	c      cid.Cid
	data   []byte
	off    int
	failAt int // -1 = never
	err    error
}

func (r *simReader) Read(p []byte) (int, error) {
	r.s.mu.Lock()
	defer r.s.mu.Unlock()
	if r.failAt >= 0 && r.off >= r.failAt {
		r.s.log("ReadErr", r.c, "eio-mid", r.off)
		return 0, r.err
	}
	if r.off >= len(r.data) {
		return 0, io.EOF
	}
	n := len(r.data) - r.off
	if r.failAt >= 0 && r.off+n > r.failAt {
		n = r.failAt - r.off
	}
	if n > len(p) {
		n = len(p)
	}
	if r.s.Frag != nil && n > 0 {
		f := r.s.Frag(n)
		if f < n {
			n = f
		}
		if n < 0 {
			n = 0
		}
	}
	copy(p, r.data[r.off:r.off+n])
	r.off += n
	return n, nil
}

// ReadOpener is the StorageReadOpener of this store.
func (s *Store) ReadOpener(lc linking.LinkContext, l datamodel.Link) (io.Reader, error) {
	if s.Yield != nil {
		s.Yield()
	}
	cl, ok := l.(cidlink.Link)
	if !ok {
		return nil, fmt.Errorf("simstore: unsupported link type %T", l)
	}
	s.mu.Lock()
	defer s.mu.Unlock()
	if s.TrackGIDs {
		if s.gids == nil {
			s.gids = map[uint64]bool{}
		}
		s.gids[curGID()] = true
	}
	c := cl.Cid
	nth := s.reads
	s.reads++
	s.ReadCids = append(s.ReadCids, c)
	if s.frozen {
		s.log("ReadOpen", c, "crashed", 0)
		return nil, s.inject(Crash, false)
	}
	var f *ReadFault
	if s.ReadPolicy != nil {
		f = s.ReadPolicy(nth, c)
	}
	// like every real block store, this one honours the context it is handed:
	// a request made under a context that is already done fails with the
	// context's error. The simulator itself cancels contexts only through
	// fault plans (a ReadPolicy may cancel before this point), so on code that
	// passes its caller's live context through this never fires by itself.
	if lc.Ctx != nil {
		if cerr := lc.Ctx.Err(); cerr != nil {
			s.Fired["ctx-done"]++
			s.log("ReadOpen", c, "ctx-done", 0)
			return nil, cerr
		}
	}
	data, have := s.durable[c.KeyString()]
	if f != nil {
		switch f.Kind {
		case NotFound:
			s.log("ReadOpen", c, "notfound", 0)
			return nil, s.injectAs(NotFound, true, f.Err)
		case EIOOpen:
			s.log("ReadOpen", c, "eio-open", 0)
			return nil, s.injectAs(EIOOpen, false, f.Err)
		case EIOMid:
			if have {
				after := f.After
				if after > len(data) {
					after = len(data)
				}
				s.log("ReadOpen", c, "eio-mid-armed", after)
				return &simReader{s: s, c: c, data: data, failAt: after, err: s.injectAs(EIOMid, false, f.Err)}, nil
			}
		case Corrupt:
			s.Fired["corrupt"]++
			s.log("ReadOpen", c, "corrupt", len(f.Replace))
			return &simReader{s: s, c: c, data: f.Replace, failAt: -1}, nil
		}
	}
	if !have {
		// genuinely absent block: behaves as the not-found kind, but is not an
		// injected fault (the scenario removed it on purpose and knows).
		s.log("ReadOpen", c, "absent", 0)
		s.tokens++
		return nil, &InjectedError{Token: fmt.Sprintf("tok-%d-%d", s.seq, s.tokens), Kind: NotFound, notFound: true}
	}
	s.log("ReadOpen", c, "ok", len(data))
	return &simReader{s: s, c: c, data: data, failAt: -1}, nil
}

// ---------------------------------------------------------------- write side

type simWriter struct {
	s    *Store
	buf  bytes.Buffer
	dead bool
}

func (w *simWriter) Write(p []byte) (int, error) {
	s := w.s
	nth := s.wsteps[WWrite]
	s.wsteps[WWrite]++
	ev := s.wevents
	s.wevents++
	if s.frozen {
		s.log("Write", cid.Undef, "crashed", 0)
		return 0, s.inject(Crash, false)
	}
	var f *WriteFault
	if s.WritePolicy != nil {
		f = s.WritePolicy(WWrite, nth, ev)
	}
	if f != nil {
		switch f.Kind {
		case Crash:
			s.crash()
			return 0, s.inject(Crash, false)
		case EIOMid, EIOOpen:
			k := f.After
			if k > len(p) {
				k = len(p)
			}
			if k < 0 {
				k = 0
			}
			w.buf.Write(p[:k])
			w.dead = true
			s.log("Write", cid.Undef, "torn", k)
			return k, s.injectAs(EIOMid, false, f.Err)
		}
	}
	if s.Quota > 0 && s.durableLen+w.buf.Len()+len(p) > s.Quota {
		w.dead = true
		s.log("Write", cid.Undef, "enospc", 0)
		return 0, s.inject(ENOSPC, false)
	}
	w.buf.Write(p)
	s.log("Write", cid.Undef, "ok", len(p))
	return len(p), nil
}

func (s *Store) crash() {
	s.frozen = true
	s.log("Crash", cid.Undef, "", 0)
}

// CrashNow freezes the store from outside (harness-side).
func (s *Store) CrashNow() { s.crash() }

// WriteOpener is the StorageWriteOpener of this store.
func (s *Store) WriteOpener(_ linking.LinkContext) (io.Writer, linking.BlockWriteCommitter, error) {
	if s.Yield != nil {
		s.Yield() // park point for concurrent builders
	}
	nth := s.wsteps[WOpen]
	s.wsteps[WOpen]++
	ev := s.wevents
	s.wevents++
	if s.frozen {
		s.log("WriteOpen", cid.Undef, "crashed", 0)
		return nil, nil, s.inject(Crash, false)
	}
	var f *WriteFault
	if s.WritePolicy != nil {
		f = s.WritePolicy(WOpen, nth, ev)
	}
	if f != nil {
		switch f.Kind {
		case Crash:
			s.crash()
			return nil, nil, s.inject(Crash, false)
		case EIOOpen, EIOMid:
			s.log("WriteOpen", cid.Undef, "eio-open", 0)
			return nil, nil, s.injectAs(EIOOpen, false, f.Err)
		}
	}
	s.log("WriteOpen", cid.Undef, "ok", 0)
	w := &simWriter{s: s}
	commit := func(l datamodel.Link) error {
		if s.Yield != nil {
			s.Yield()
		}
		nth := s.wsteps[WCommit]
		s.wsteps[WCommit]++
		ev := s.wevents
		s.wevents++
		cl, ok := l.(cidlink.Link)
		if !ok {
			return fmt.Errorf("simstore: unsupported link type %T", l)
		}
		if s.frozen {
			s.log("Commit", cl.Cid, "crashed", 0)
			return s.inject(Crash, false)
		}
		var f *WriteFault
		if s.WritePolicy != nil {
			f = s.WritePolicy(WCommit, nth, ev)
		}
		if f != nil {
			switch f.Kind {
			case Crash:
				s.crash()
				return s.inject(Crash, false)
			case CommitFail, EIOOpen, EIOMid:
				s.log("Commit", cl.Cid, "commit-fail", 0)
				return s.injectAs(CommitFail, false, f.Err)
			}
		}
		if w.dead {
			// the caller ignored a failed Write and commits anyway: like a real
			// store, this one makes durable whatever bytes it was given - a
			// block whose content does not match its CID. Callers must not do
			// that; oracles look for it (TornCommits, content checks).
			s.TornCommits++
			s.log("Commit", cl.Cid, "commit-of-torn-write", w.buf.Len())
		}
		data := append([]byte(nil), w.buf.Bytes()...)
		k := cl.Cid.KeyString()
		if _, ok := s.durable[k]; !ok {
			s.order = append(s.order, k)
			s.durableLen += len(data)
		}
		s.durable[k] = data
		s.log("Commit", cl.Cid, "ok", len(data))
		if s.OnCommit != nil {
			s.OnCommit(cl.Cid, data)
		}
		return nil
	}
	return w, commit, nil
}

// WriteEvents is the number of write-protocol steps seen so far.
func (s *Store) WriteEvents() int { return s.wevents }

// WriteSteps returns the per-kind step counters (open, write, commit).
func (s *Store) WriteSteps() [3]int { return s.wsteps }
