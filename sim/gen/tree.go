package gen

import (
	"fmt"

	"github.com/ipfs/go-cid"

	"verif/sim/store"
	"verif/sim/tape"
)

// TreeNode is one entity of a generated tree.
type TreeNode struct {
	Name     string      `json:"name"`
	Kind     string      `json:"kind"` // file | dir | hamt
	Cid      cid.Cid     `json:"-"`
	CidStr   string      `json:"cid"`
	Children []*TreeNode `json:"children,omitempty"`
	Content  []byte      `json:"-"`
	Spec     string      `json:"spec,omitempty"`
}

// TreeOpts bounds the generated tree.
type TreeOpts struct {
	MaxDepth    int
	MaxFileSize int
}

// WriteTree draws and writes a tree of plain directories, sharded
// directories and (multi-block) files. The tree tape is made of records of 12
// cells per node.
func WriteTree(st *store.Store, t *tape.Tape, o TreeOpts) (*TreeNode, error) {
	if o.MaxDepth <= 0 {
		o.MaxDepth = 3
	}
	if o.MaxFileSize <= 0 {
		o.MaxFileSize = 2048
	}
	return writeTreeNode(st, t, o, "", 0, true)
}

func writeTreeNode(st *store.Store, t *tape.Tape, o TreeOpts, name string, depth int, mustDir bool) (*TreeNode, error) {
	start := t.Pos()
	defer func() {
		for t.Pos() < start+12 {
			t.Skip(1)
		}
	}()
	kind := t.Pick(3, 2, 2) // file, dir, hamt
	if mustDir && kind == 0 {
		kind = 1 + t.Intn(2)
	} else if mustDir {
		t.Skip(1)
	}
	if depth >= o.MaxDepth {
		kind = 0
	}
	n := &TreeNode{Name: name}
	switch kind {
	case 0:
		n.Kind = "file"
		fo := FileOpts{MaxSize: o.MaxFileSize}
		// the file spec consumes its own 8 cells from the same tape
		spec := DrawFileSpec(t, fo)
		c, content, err := WriteFile(st, spec)
		if err != nil {
			return nil, err
		}
		n.Cid, n.Content, n.Spec = c, content, spec.String()
	case 1, 2:
		nKids := 1 + t.Intn(4)
		seed := t.Raw()
		fan := []int{8, 16, 256}[t.Intn(3)]
		v1 := t.Intn(2) == 0
		extra := t.Intn(30) // additional leaf entries so that shards go deep
		entries := map[string]cid.Cid{}
		sizes := map[string]uint64{}
		names := []string{}
		for i := 0; i < nKids; i++ {
			cn := fmt.Sprintf("%s%d", []string{"a", "b b", "ç", "d.txt"}[i%4], i)
			switch {
			case i == 2 && seed%3 == 0:
				cn = "." // a legal one-character entry name
			case i == 3 && seed%2 == 0:
				cn = fmt.Sprint(7 + seed%2000) // an entry whose name looks like a list index
			case i == 1 && seed%5 == 0:
				cn = ".."
			case i == 0 && seed%7 == 3:
				// a legal name that LOOKS percent-encoded, next to the name it
				// would decode to: path segments are entry names, not URL text
				cn = "r%41"
			case i == 1 && seed%7 == 3:
				cn = "rA"
			}
			child, err := writeTreeNode(st, t, o, cn, depth+1, false)
			if err != nil {
				return nil, err
			}
			n.Children = append(n.Children, child)
			entries[cn] = child.Cid
			sizes[cn] = 1
			names = append(names, cn)
		}
		if kind == 1 {
			n.Kind = "dir"
			if seed%4 == 1 {
				// a directory block whose links are NOT sorted by name: decoders
				// keep the order found in the block (only this library's writers
				// and conformant importers sort)
				n.Cid = WriteUnsortedDir(st, names, entries, seed)
				n.Spec = "links not sorted by name"
			} else {
				n.Cid = WritePlainDir(st, entries, sizes, v1)
			}
		} else {
			n.Kind = "hamt"
			// pad with small leaf entries (not part of Children: they are raw
			// one-block files) so that the HAMT has several levels
			for i := 0; i < extra; i++ {
				en := fmt.Sprintf("x%d-%d", seed%97, i)
				entries[en] = EntryTarget(st, en)
				names = append(names, en)
			}
			spec := DirSpec{Writer: []string{"builder", "boxo"}[int(seed>>8)%2], Fanout: fan, Seed: seed}
			var c cid.Cid
			var err error
			if spec.Writer == "builder" {
				c, err = writeDirWithBuilder(st, names, entries, fan)
			} else {
				c, _, err = writeDirWithBoxo(st, names, entries, spec)
			}
			if err != nil {
				return nil, err
			}
			n.Cid = c
			n.Spec = fmt.Sprintf("%s fanout=%d entries=%d", spec.Writer, fan, len(names))
		}
	}
	n.CidStr = n.Cid.String()
	return n, nil
}

// Paths lists every root-to-node path (segments) of the tree with its node.
func Paths(root *TreeNode) (paths [][]string, nodes []*TreeNode) {
	var walk func(n *TreeNode, prefix []string)
	walk = func(n *TreeNode, prefix []string) {
		for _, c := range n.Children {
			p := append(append([]string(nil), prefix...), c.Name)
			paths = append(paths, p)
			nodes = append(nodes, c)
			walk(c, p)
		}
	}
	walk(root, nil)
	return
}
