// Package gen produces the DAGs and inputs scenarios run on. Writers: this
// repository's builders, boxo's importer and HAMT (as reference writers), and a
// minimal dag-pb writer of the harness's own for legal-but-unusual shapes.
package gen

import (
	"context"

	"github.com/ipfs/go-cid"
	format "github.com/ipfs/go-ipld-format"

	"verif/sim/store"
)

// mapDag is a trivial in-memory format.DAGService over a SimStore (harness
// side: Put/Get are not logged and never fail).
type mapDag struct {
	st    *store.Store
	nodes map[string]format.Node
}

func newMapDag(st *store.Store) *mapDag { return &mapDag{st: st, nodes: map[string]format.Node{}} }

func (m *mapDag) Get(_ context.Context, c cid.Cid) (format.Node, error) {
	n, ok := m.nodes[c.KeyString()]
	if !ok {
		return nil, format.ErrNotFound{Cid: c}
	}
	return n, nil
}

func (m *mapDag) GetMany(ctx context.Context, cs []cid.Cid) <-chan *format.NodeOption {
	ch := make(chan *format.NodeOption, len(cs))
	for _, c := range cs {
		n, err := m.Get(ctx, c)
		ch <- &format.NodeOption{Node: n, Err: err}
	}
	close(ch)
	return ch
}

func (m *mapDag) Add(_ context.Context, n format.Node) error {
	m.nodes[n.Cid().KeyString()] = n
	m.st.Put(n.Cid(), n.RawData())
	return nil
}

func (m *mapDag) AddMany(ctx context.Context, ns []format.Node) error {
	for _, n := range ns {
		_ = m.Add(ctx, n)
	}
	return nil
}

func (m *mapDag) Remove(_ context.Context, c cid.Cid) error {
	delete(m.nodes, c.KeyString())
	return nil
}

func (m *mapDag) RemoveMany(ctx context.Context, cs []cid.Cid) error {
	for _, c := range cs {
		_ = m.Remove(ctx, c)
	}
	return nil
}
