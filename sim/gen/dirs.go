package gen

import (
	"context"
	"fmt"
	"sort"
	"strings"

	"github.com/ipfs/boxo/ipld/merkledag"
	ft "github.com/ipfs/boxo/ipld/unixfs"
	"github.com/ipfs/boxo/ipld/unixfs/hamt"
	"github.com/ipfs/go-cid"
	format "github.com/ipfs/go-ipld-format"
	"github.com/ipfs/go-unixfsnode/data/builder"
	dagpb "github.com/ipld/go-codec-dagpb"
	cidlink "github.com/ipld/go-ipld-prime/linking/cid"
	mh "github.com/multiformats/go-multihash"
	"github.com/spaolacci/murmur3"

	"verif/sim/store"
	"verif/sim/tape"
	"verif/sim/world"
)

// DirSpec describes a sharded directory to be written.
type DirSpec struct {
	Writer  string `json:"writer"` // builder | boxo | boxo-history
	Fanout  int    `json:"fanout"`
	N       int    `json:"n"`
	Mined   int    `json:"mined"`   // how many names are mined to share a long hash prefix
	MineBit int    `json:"minebit"` // prefix length in bits
	Style   int    `json:"style"`
	Seed    uint64 `json:"seed"`
}

func (s DirSpec) String() string {
	return fmt.Sprintf("%s fanout=%d n=%d mined=%d/%dbits style=%d", s.Writer, s.Fanout, s.N, s.Mined, s.MineBit, s.Style)
}

// DirOpts restricts drawn specs.
type DirOpts struct {
	MaxN        int
	OnlyBuilder bool
	NoBuilder   bool
}

// DrawDirSpec consumes 8 cells.
func DrawDirSpec(t *tape.Tape, o DirOpts) DirSpec {
	start := t.Pos()
	var s DirSpec
	ws := []string{"builder", "boxo", "boxo-history", "mixed-fanout"}
	if o.OnlyBuilder {
		ws = []string{"builder"}
	} else if o.NoBuilder {
		ws = []string{"boxo", "boxo-history", "mixed-fanout"}
	}
	s.Writer = ws[t.Intn(len(ws))]
	s.Fanout = []int{8, 16, 32, 64, 128, 256, 512, 1024}[t.Pick(6, 3, 2, 1, 1, 2, 1, 1)]
	max := o.MaxN
	if max <= 0 {
		max = 200
	}
	switch t.Pick(3, 4, 1) {
	case 0:
		s.N = 1 + t.Intn(12)
	case 1:
		s.N = 1 + t.Intn(max)
	case 2:
		s.N = max
		t.Skip(1)
	}
	s.Mined = t.Intn(6)
	s.MineBit = 6 + t.Intn(15) // 6..20 bits of shared prefix
	s.Style = t.Intn(9)
	s.Seed = t.Raw()
	for t.Pos() < start+8 {
		t.Skip(1)
	}
	return s
}

// Names produces the entry names of a spec: distinct, non-empty.
func Names(s DirSpec) []string {
	r := tape.NewSplitMix(s.Seed)
	seen := map[string]bool{}
	var out []string
	add := func(n string) bool {
		if n == "" || seen[n] {
			return false
		}
		seen[n] = true
		out = append(out, n)
		return true
	}
	mk := func(i int) string {
		switch s.Style {
		case 0:
			return fmt.Sprintf("f%d", i)
		case 1:
			return fmt.Sprintf("%02X%d", byte(r.Next()), i) // hex-looking prefixes
		case 2:
			return fmt.Sprintf("n %d é☃", i) // spaces and unicode
		case 8: // names that look like numbers (list indices, years, negative numbers)
			return []string{"%d", "0%d", "-%d", "20%02d", "00%d"}[i%5][0:0] + fmt.Sprintf([]string{"%d", "0%d", "-%d", "20%02d", "00%d"}[i%5], i)
		case 7: // very long names (hundreds to thousands of bytes)
			return fmt.Sprintf("long%d-", i) + strings.Repeat(string(rune('a'+i%26)), 200+int(r.Next()%3000))
		case 6: // families {x, <hex digit>x, <two hex digits>x}: a name that
			// equals another name behind something that looks like a bucket label
			base := fmt.Sprintf("q%d", i/20)
			switch k := i % 20; {
			case k == 0:
				return base
			case k <= 16:
				return fmt.Sprintf("%X", k-1) + base
			default:
				return fmt.Sprintf("%X%X", 1+(k-17), (i/20+k)%16) + base
			}
		case 5: // names that are not valid UTF-8 and differ only inside the invalid bytes
			// raw bytes, not runes: "r\xe9s\xe8<n>" is not valid UTF-8
			return "r" + string([]byte{[]byte{0xe9, 0xe8, 0xff, 0xc0}[i%4]}) + "s" + string([]byte{[]byte{0xe9, 0xe8}[(i/4)%2]}) + fmt.Sprint(i/8)
		case 4: // very short names: one character, then two
			const al = "abcdefghijklmnopqrstuvwxyz0123456789ABCDEF"
			if i < len(al) {
				return al[i : i+1]
			}
			return al[(i/len(al))%len(al):(i/len(al))%len(al)+1] + al[i%len(al):i%len(al)+1] + fmt.Sprint(i / (len(al) * len(al)))[0:0]
		default:
			return fmt.Sprintf("%x", r.Next()>>uint(r.Next()%40))
		}
	}
	for i := 0; len(out) < s.N-s.Mined || len(out) == 0; i++ {
		add(mk(i))
		if i > 10*s.N+100 {
			break
		}
	}
	// mined names: share the top MineBit bits of murmur3 with the first name
	base := murmur3.Sum64([]byte(out[0]))
	shift := uint(64 - s.MineBit)
	for m, k := 0, 0; m < s.Mined && len(out) < s.N && k < 1<<22; k++ {
		cand := fmt.Sprintf("m%d", k)
		if murmur3.Sum64([]byte(cand))>>shift == base>>shift {
			if add(cand) {
				m++
			}
		}
	}
	return out
}

// EntryCid mints a link target for an entry without storing anything. kind
// selects the CID flavour, so that links of different byte lengths occur in
// one directory: 0 CIDv1 raw sha2-256 (36 bytes), 1 CIDv0 (34), 2 CIDv1
// dag-pb sha2-512 (68), 3 CIDv1 raw identity (variable).
func EntryCid(name string, kind int) cid.Cid {
	data := []byte("entry:" + name)
	switch kind % 4 {
	case 1:
		h, _ := mh.Sum(data, mh.SHA2_256, -1)
		return cid.NewCidV0(h)
	case 2:
		h, _ := mh.Sum(data, mh.SHA2_512, -1)
		return cid.NewCidV1(cid.DagProtobuf, h)
	case 3:
		h, _ := mh.Sum(data, mh.IDENTITY, -1)
		return cid.NewCidV1(cid.Raw, h)
	}
	h, _ := mh.Sum(data, mh.SHA2_256, -1)
	return cid.NewCidV1(cid.Raw, h)
}

// EntryTarget stores the small raw block an entry named name points at.
func EntryTarget(st *store.Store, name string) cid.Cid {
	return putRaw(st, []byte("entry:"+name))
}

// WriteShardedDir writes the directory into st and returns its root and the
// entry map the writer was given.
func WriteShardedDir(st *store.Store, s DirSpec) (cid.Cid, map[string]cid.Cid, error) {
	names := Names(s)
	entries := map[string]cid.Cid{}
	for _, n := range names {
		entries[n] = EntryTarget(st, n)
	}
	switch s.Writer {
	case "builder":
		c, err := writeDirWithBuilder(st, names, entries, s.Fanout)
		return c, entries, err
	case "boxo", "boxo-history":
		c, final, err := writeDirWithBoxo(st, names, entries, s)
		return c, final, err
	case "mixed-fanout":
		return writeMixedFanout(st, names, entries, s), entries, nil
	}
	return cid.Undef, nil, fmt.Errorf("unknown dir writer %q", s.Writer)
}

// PBLinks converts entries to the builder's input form, in the given order.
func PBLinks(names []string, entries map[string]cid.Cid, sizes map[string]int64) ([]dagpb.PBLink, error) {
	out := make([]dagpb.PBLink, 0, len(names))
	for _, n := range names {
		sz := int64(len("entry:" + n))
		if sizes != nil {
			sz = sizes[n]
		}
		l, err := builder.BuildUnixFSDirectoryEntry(n, sz, cidlink.Link{Cid: entries[n]})
		if err != nil {
			return nil, err
		}
		out = append(out, l)
	}
	return out, nil
}

func writeDirWithBuilder(st *store.Store, names []string, entries map[string]cid.Cid, fanout int) (c cid.Cid, err error) {
	defer func() {
		if r := recover(); r != nil {
			err = ErrWriter{fmt.Errorf("builder panic: %v", r)}
		}
	}()
	scratch := store.New()
	w := world.New(scratch, false)
	lnks, err := PBLinks(names, entries, nil)
	if err != nil {
		return cid.Undef, ErrWriter{err}
	}
	l, _, err := builder.BuildUnixFSShardedDirectory(fanout, mh.MURMUR3X64_64, lnks, &w.LS)
	if err != nil {
		return cid.Undef, ErrWriter{err}
	}
	if l == nil {
		return cid.Undef, ErrWriter{fmt.Errorf("builder returned nil link")}
	}
	for _, k := range scratch.Keys() {
		b, _ := scratch.Get(k)
		st.Put(k, b)
	}
	return l.(cidlink.Link).Cid, nil
}

func writeDirWithBoxo(st *store.Store, names []string, entries map[string]cid.Cid, s DirSpec) (cid.Cid, map[string]cid.Cid, error) {
	ctx := context.Background()
	ds := newMapDag(st)
	sh, err := hamt.NewShard(ds, s.Fanout)
	if err != nil {
		return cid.Undef, nil, err
	}
	if s.Seed%2 == 0 {
		sh.SetCidBuilder(merkledag.V1CidPrefix())
	}
	final := map[string]cid.Cid{}
	set := func(n string) error {
		final[n] = entries[n]
		return sh.SetLink(ctx, n, &format.Link{Name: n, Cid: entries[n], Size: uint64(len("entry:" + n))})
	}
	for _, n := range names {
		if err := set(n); err != nil {
			return cid.Undef, nil, err
		}
	}
	if s.Writer == "boxo-history" {
		r := tape.NewSplitMix(s.Seed ^ 0x5151)
		// remove about a third, re-insert some of them: shards collapse and
		// re-split, leaving a DAG no single bulk insert would write
		var removed []string
		for _, n := range names {
			if r.Next()%3 == 0 && len(final) > 1 {
				if err := sh.Remove(ctx, n); err != nil {
					return cid.Undef, nil, err
				}
				delete(final, n)
				removed = append(removed, n)
			}
		}
		for _, n := range removed {
			if r.Next()%3 == 0 {
				if err := set(n); err != nil {
					return cid.Undef, nil, err
				}
			}
		}
	}
	nd, err := sh.Node()
	if err != nil {
		return cid.Undef, nil, err
	}
	if err := ds.Add(ctx, nd); err != nil {
		return cid.Undef, nil, err
	}
	return nd.Cid(), final, nil
}

// WritePlainDir writes a basic (unsharded) directory block, links sorted by
// name as every conformant writer does.
func WritePlainDir(st *store.Store, entries map[string]cid.Cid, sizes map[string]uint64, v1 bool) cid.Cid {
	n := ft.EmptyDirNode()
	setBuilder(n, v1)
	names := make([]string, 0, len(entries))
	for k := range entries {
		names = append(names, k)
	}
	sort.Strings(names)
	for _, k := range names {
		_ = n.AddRawLink(k, &format.Link{Cid: entries[k], Size: sizes[k]})
	}
	st.Put(n.Cid(), n.RawData())
	return n.Cid()
}

// WriteDeepShardChain writes a legal-looking but hostile sharded directory: a
// chain of depth shards, each holding a single child link in the bucket the
// name's hash selects at that level (bucket 0 once the 64 hash bits are
// used up), with the entry itself in the last shard. A chain longer than
// 64/log2(fanout) levels cannot be addressed by any lookup.
func WriteDeepShardChain(st *store.Store, fanout, depth int, name string) cid.Cid {
	return WriteShardChain(st, func(int) int { return fanout }, depth, name)
}

// WriteShardChain is WriteDeepShardChain with a fanout per level: a
// mixed-fanout chain is legal (each shard is self-describing) and is where
// code that carries one shard's width into another goes wrong.
func WriteShardChain(st *store.Store, fanAt func(level int) int, depth int, name string) cid.Cid {
	h := murmur3.Sum64([]byte(name))
	widthOf := func(f int) int {
		w := 0
		for 1<<uint(w) < f {
			w++
		}
		return w
	}
	consumedAt := make([]int, depth+1)
	for l := 0; l < depth; l++ {
		consumedAt[l+1] = consumedAt[l] + widthOf(fanAt(l))
	}
	idxAt := func(level int) int {
		fanout := fanAt(level)
		w := widthOf(fanout)
		consumed := consumedAt[level]
		if consumed+w > 64 {
			return 0
		}
		return int((h >> uint(64-consumed-w)) & uint64(fanout-1))
	}
	target := EntryTarget(st, name)
	var child cid.Cid
	for level := depth - 1; level >= 0; level-- {
		fanout := fanAt(level)
		pad := len(fmt.Sprintf("%X", fanout-1))
		idx := idxAt(level)
		bf := make([]byte, fanout/8)
		bf[len(bf)-1-idx/8] |= 1 << (uint(idx) % 8)
		// strip leading zero bytes like conformant writers do
		for len(bf) > 1 && bf[0] == 0 {
			bf = bf[1:]
		}
		u := &RawUnixFS{Type: 5, HasType: true, Data: bf, HasData: true, HashType: 0x22, HasHashType: true, Fanout: uint64(fanout), HasFanout: true}
		var l RawLink
		if level == depth-1 {
			l = RawLink{Hash: target.Bytes(), HasHash: true, Name: fmt.Sprintf("%0*X%s", pad, idx, name), HasName: true, Tsize: 1, HasTsize: true}
		} else {
			l = RawLink{Hash: child.Bytes(), HasHash: true, Name: fmt.Sprintf("%0*X", pad, idx), HasName: true, Tsize: 1, HasTsize: true}
		}
		n := &RawNode{Links: []RawLink{l}, Data: u.Encode(), HasData: true}
		b := n.Encode()
		c, _ := cid.Prefix{Version: 1, Codec: cid.DagProtobuf, MhType: mh.SHA2_256, MhLength: 32}.Sum(b)
		st.Put(c, b)
		child = c
	}
	return child
}

// WriteDiamondShardChain writes a hostile sharded directory of depth levels in
// which every shard links TWICE to the same child shard (two buckets, one
// block), ending in a shard that holds leaf entries (or none). The DAG has
// depth+1 blocks but 2^depth root-to-leaf paths: anything that walks it as a
// tree without memoising per block does exponential work.
func WriteDiamondShardChain(st *store.Store, fanout, depth, leafEntries int) cid.Cid {
	pad := len(fmt.Sprintf("%X", fanout-1))
	mk := func(links []RawLink, bits []int) cid.Cid {
		bf := make([]byte, fanout/8)
		for _, i := range bits {
			bf[len(bf)-1-i/8] |= 1 << (uint(i) % 8)
		}
		for len(bf) > 1 && bf[0] == 0 {
			bf = bf[1:]
		}
		u := &RawUnixFS{Type: 5, HasType: true, Data: bf, HasData: true, HashType: 0x22, HasHashType: true, Fanout: uint64(fanout), HasFanout: true}
		n := &RawNode{Links: links, Data: u.Encode(), HasData: true}
		b := n.Encode()
		c, _ := cid.Prefix{Version: 1, Codec: cid.DagProtobuf, MhType: mh.SHA2_256, MhLength: 32}.Sum(b)
		st.Put(c, b)
		return c
	}
	var links []RawLink
	var bits []int
	for i := 0; i < leafEntries && i < fanout; i++ {
		name := fmt.Sprintf("leaf%d", i)
		t := EntryTarget(st, name)
		links = append(links, RawLink{Hash: t.Bytes(), HasHash: true, Name: fmt.Sprintf("%0*X%s", pad, i, name), HasName: true, Tsize: 1, HasTsize: true})
		bits = append(bits, i)
	}
	child := mk(links, bits)
	for level := 0; level < depth; level++ {
		ls := []RawLink{
			{Hash: child.Bytes(), HasHash: true, Name: fmt.Sprintf("%0*X", pad, 1), HasName: true, Tsize: 1, HasTsize: true},
			{Hash: child.Bytes(), HasHash: true, Name: fmt.Sprintf("%0*X", pad, 2), HasName: true, Tsize: 1, HasTsize: true},
		}
		child = mk(ls, []int{1, 2})
	}
	return child
}
