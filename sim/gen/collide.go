package gen

import (
	"encoding/binary"
	"math/bits"

	"github.com/spaolacci/murmur3"

	"verif/sim/tape"
)

// CollidingNames returns two distinct 32-byte names with the same
// murmur3-x64 hash (all 64 bits the HAMT consumes, in fact the whole 128-bit
// state). The block function of murmur3 is invertible: for a random first
// block of the second name, the second block that reaches the first name's
// state is solved for directly. No sharded directory can hold both names
// (there are no hash bits left to tell them apart), so a builder must treat a
// set containing both the same way in every entry order.
func CollidingNames(seed uint64) (string, string) {
	const (
		c1 = 0x87c37b91114253d5
		c2 = 0x4cf5ad432745937f
		a1 = 0x52dce729
		a2 = 0x38495ab5
	)
	inv := func(x uint64) uint64 { // inverse of an odd x modulo 2^64
		y := x
		for i := 0; i < 6; i++ {
			y *= 2 - x*y
		}
		return y
	}
	step := func(h1, h2, k1, k2 uint64) (uint64, uint64) {
		k1 *= c1
		k1 = bits.RotateLeft64(k1, 31)
		k1 *= c2
		h1 ^= k1
		h1 = bits.RotateLeft64(h1, 27)
		h1 += h2
		h1 = h1*5 + a1
		k2 *= c2
		k2 = bits.RotateLeft64(k2, 33)
		k2 *= c1
		h2 ^= k2
		h2 = bits.RotateLeft64(h2, 31)
		h2 += h1
		h2 = h2*5 + a2
		return h1, h2
	}
	r := tape.NewSplitMix(seed ^ 0xc0111de)
	le := binary.LittleEndian
	a := make([]byte, 32)
	for i := 0; i < 32; i += 8 {
		le.PutUint64(a[i:], r.Next())
	}
	t1, t2 := step(0, 0, le.Uint64(a[0:]), le.Uint64(a[8:]))
	t1, t2 = step(t1, t2, le.Uint64(a[16:]), le.Uint64(a[24:]))
	b := make([]byte, 32)
	le.PutUint64(b[0:], r.Next())
	le.PutUint64(b[8:], r.Next())
	g1, g2 := step(0, 0, le.Uint64(b[0:]), le.Uint64(b[8:]))
	inv5, ic1, ic2 := inv(5), inv(c1), inv(c2)
	m1 := bits.RotateLeft64((t1-a1)*inv5-g2, -27) ^ g1
	k1 := bits.RotateLeft64(m1*ic2, -31) * ic1
	m2 := bits.RotateLeft64((t2-a2)*inv5-t1, -31) ^ g2
	k2 := bits.RotateLeft64(m2*ic1, -33) * ic2
	le.PutUint64(b[16:], k1)
	le.PutUint64(b[24:], k2)
	sa, sb := string(a), string(b)
	if sa == sb || murmur3.Sum64(a) != murmur3.Sum64(b) {
		panic("harness: CollidingNames did not produce a collision")
	}
	return sa, sb
}
