package gen

import (
	"google.golang.org/protobuf/encoding/protowire"
)

// RawLink / RawNode / RawUnixFS are the harness's own minimal dag-pb and
// UnixFS Data writer. Unlike the real codecs they can express every
// presence combination (absent names, absent sizes, wrong types), which is
// what the field-aware corruption of C13 needs.
type RawLink struct {
	Hash     []byte
	HasHash  bool
	Name     string
	HasName  bool
	Tsize    uint64
	HasTsize bool
}

type RawNode struct {
	Links   []RawLink
	Data    []byte
	HasData bool
}

// Encode writes canonical dag-pb: links (field 2) first, then data (field 1).
func (n *RawNode) Encode() []byte {
	var out []byte
	for _, l := range n.Links {
		var lb []byte
		if l.HasHash {
			lb = protowire.AppendTag(lb, 1, protowire.BytesType)
			lb = protowire.AppendBytes(lb, l.Hash)
		}
		if l.HasName {
			lb = protowire.AppendTag(lb, 2, protowire.BytesType)
			lb = protowire.AppendString(lb, l.Name)
		}
		if l.HasTsize {
			lb = protowire.AppendTag(lb, 3, protowire.VarintType)
			lb = protowire.AppendVarint(lb, l.Tsize)
		}
		out = protowire.AppendTag(out, 2, protowire.BytesType)
		out = protowire.AppendBytes(out, lb)
	}
	if n.HasData {
		out = protowire.AppendTag(out, 1, protowire.BytesType)
		out = protowire.AppendBytes(out, n.Data)
	}
	return out
}

// DecodeRawNode parses dag-pb bytes leniently; ok is false when the bytes are
// not a protobuf message of that shape.
func DecodeRawNode(b []byte) (*RawNode, bool) {
	n := &RawNode{}
	for len(b) > 0 {
		num, typ, k := protowire.ConsumeTag(b)
		if k < 0 {
			return nil, false
		}
		b = b[k:]
		switch {
		case num == 1 && typ == protowire.BytesType:
			v, k := protowire.ConsumeBytes(b)
			if k < 0 {
				return nil, false
			}
			n.Data, n.HasData = append([]byte(nil), v...), true
			b = b[k:]
		case num == 2 && typ == protowire.BytesType:
			v, k := protowire.ConsumeBytes(b)
			if k < 0 {
				return nil, false
			}
			b = b[k:]
			var l RawLink
			for len(v) > 0 {
				ln, lt, k := protowire.ConsumeTag(v)
				if k < 0 {
					return nil, false
				}
				v = v[k:]
				switch {
				case ln == 1 && lt == protowire.BytesType:
					x, k := protowire.ConsumeBytes(v)
					if k < 0 {
						return nil, false
					}
					l.Hash, l.HasHash = append([]byte(nil), x...), true
					v = v[k:]
				case ln == 2 && lt == protowire.BytesType:
					x, k := protowire.ConsumeBytes(v)
					if k < 0 {
						return nil, false
					}
					l.Name, l.HasName = string(x), true
					v = v[k:]
				case ln == 3 && lt == protowire.VarintType:
					x, k := protowire.ConsumeVarint(v)
					if k < 0 {
						return nil, false
					}
					l.Tsize, l.HasTsize = x, true
					v = v[k:]
				default:
					k := protowire.ConsumeFieldValue(ln, lt, v)
					if k < 0 {
						return nil, false
					}
					v = v[k:]
				}
			}
			n.Links = append(n.Links, l)
		default:
			k := protowire.ConsumeFieldValue(num, typ, b)
			if k < 0 {
				return nil, false
			}
			b = b[k:]
		}
	}
	return n, true
}

// RandomProto produces a protobuf-shaped byte string: a random sequence of
// fields (numbers around those UnixFS uses, every wire type, extreme values,
// repeated and nested occurrences), optionally cut short. It is what a
// grammar-aware fuzzer feeds a hand-written protobuf decoder.
func RandomProto(next func() uint64, depth int) []byte {
	var out []byte
	n := int(next() % 7)
	ext := []uint64{0, 1, 2, 5, 127, 128, 1 << 31, 1<<32 - 1, 1<<63 - 1, 1 << 63, 1<<64 - 1}
	for i := 0; i < n; i++ {
		num := protowire.Number([]int32{1, 2, 3, 4, 5, 6, 7, 8, 9, 15, 100, 1}[next()%12])
		switch next() % 6 {
		case 0, 1:
			out = protowire.AppendTag(out, num, protowire.VarintType)
			out = protowire.AppendVarint(out, ext[next()%uint64(len(ext))])
		case 2:
			out = protowire.AppendTag(out, num, protowire.BytesType)
			var b []byte
			if depth < 2 && next()%2 == 0 {
				b = RandomProto(next, depth+1)
			} else {
				b = make([]byte, next()%9)
				for j := range b {
					b[j] = byte(next())
				}
			}
			out = protowire.AppendBytes(out, b)
		case 3:
			out = protowire.AppendTag(out, num, protowire.Fixed32Type)
			out = protowire.AppendFixed32(out, uint32(next()))
		case 4:
			out = protowire.AppendTag(out, num, protowire.Fixed64Type)
			out = protowire.AppendFixed64(out, next())
		default:
			// a non-minimal varint, a group marker, or a length that overruns
			switch next() % 3 {
			case 0:
				out = protowire.AppendTag(out, num, protowire.VarintType)
				out = append(out, 0x81, 0x80, 0x80, 0x00)
			case 1:
				out = protowire.AppendTag(out, num, protowire.StartGroupType)
			default:
				out = protowire.AppendTag(out, num, protowire.BytesType)
				out = protowire.AppendVarint(out, 1+next()%1000)
			}
		}
	}
	if len(out) > 0 && next()%5 == 0 {
		out = out[:int(next()%uint64(len(out)))]
	}
	return out
}

// RawUnixFS is the UnixFS Data message with explicit presence.
type RawUnixFS struct {
	Type        uint64
	HasType     bool
	Data        []byte
	HasData     bool
	FileSize    uint64
	HasFileSize bool
	BlockSizes  []uint64
	PackSizes   bool
	HashType    uint64
	HasHashType bool
	Fanout      uint64
	HasFanout   bool
	Mode        uint64
	HasMode     bool
	// Mtime (UnixFS 1.5): seconds may be negative (before 1970)
	HasMtime   bool
	MtimeSec   int64
	MtimeNanos uint32
	HasNanos   bool
	Extra      []byte // appended verbatim (unknown fields, garbage)
}

func (u *RawUnixFS) Encode() []byte {
	var out []byte
	if u.HasType {
		out = protowire.AppendTag(out, 1, protowire.VarintType)
		out = protowire.AppendVarint(out, u.Type)
	}
	if u.HasData {
		out = protowire.AppendTag(out, 2, protowire.BytesType)
		out = protowire.AppendBytes(out, u.Data)
	}
	if u.HasFileSize {
		out = protowire.AppendTag(out, 3, protowire.VarintType)
		out = protowire.AppendVarint(out, u.FileSize)
	}
	if u.PackSizes && len(u.BlockSizes) > 0 {
		var pk []byte
		for _, s := range u.BlockSizes {
			pk = protowire.AppendVarint(pk, s)
		}
		out = protowire.AppendTag(out, 4, protowire.BytesType)
		out = protowire.AppendBytes(out, pk)
	} else {
		for _, s := range u.BlockSizes {
			out = protowire.AppendTag(out, 4, protowire.VarintType)
			out = protowire.AppendVarint(out, s)
		}
	}
	if u.HasHashType {
		out = protowire.AppendTag(out, 5, protowire.VarintType)
		out = protowire.AppendVarint(out, u.HashType)
	}
	if u.HasFanout {
		out = protowire.AppendTag(out, 6, protowire.VarintType)
		out = protowire.AppendVarint(out, u.Fanout)
	}
	if u.HasMode {
		out = protowire.AppendTag(out, 7, protowire.VarintType)
		out = protowire.AppendVarint(out, u.Mode)
	}
	if u.HasMtime {
		var mt []byte
		mt = protowire.AppendTag(mt, 1, protowire.VarintType)
		mt = protowire.AppendVarint(mt, uint64(u.MtimeSec))
		if u.HasNanos {
			mt = protowire.AppendTag(mt, 2, protowire.Fixed32Type)
			mt = protowire.AppendFixed32(mt, u.MtimeNanos)
		}
		out = protowire.AppendTag(out, 8, protowire.BytesType)
		out = protowire.AppendBytes(out, mt)
	}
	out = append(out, u.Extra...)
	return out
}

// DecodeRawUnixFS parses a UnixFS Data message leniently.
func DecodeRawUnixFS(b []byte) (*RawUnixFS, bool) {
	u := &RawUnixFS{}
	for len(b) > 0 {
		num, typ, k := protowire.ConsumeTag(b)
		if k < 0 {
			return nil, false
		}
		b = b[k:]
		if typ == protowire.VarintType {
			v, k := protowire.ConsumeVarint(b)
			if k < 0 {
				return nil, false
			}
			b = b[k:]
			switch num {
			case 1:
				u.Type, u.HasType = v, true
			case 3:
				u.FileSize, u.HasFileSize = v, true
			case 4:
				u.BlockSizes = append(u.BlockSizes, v)
			case 5:
				u.HashType, u.HasHashType = v, true
			case 6:
				u.Fanout, u.HasFanout = v, true
			case 7:
				u.Mode, u.HasMode = v, true
			}
			continue
		}
		if typ == protowire.BytesType {
			v, k := protowire.ConsumeBytes(b)
			if k < 0 {
				return nil, false
			}
			b = b[k:]
			switch num {
			case 2:
				u.Data, u.HasData = append([]byte(nil), v...), true
			case 4:
				for len(v) > 0 {
					x, k := protowire.ConsumeVarint(v)
					if k < 0 {
						return nil, false
					}
					u.BlockSizes = append(u.BlockSizes, x)
					v = v[k:]
				}
			}
			continue
		}
		k = protowire.ConsumeFieldValue(num, typ, b)
		if k < 0 {
			return nil, false
		}
		b = b[k:]
	}
	return u, true
}
