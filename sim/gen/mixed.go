package gen

import (
	"fmt"
	"sort"

	"github.com/ipfs/go-cid"
	mh "github.com/multiformats/go-multihash"
	"github.com/spaolacci/murmur3"

	"verif/sim/store"
	"verif/sim/tape"
)

// writeMixedFanout writes a legal sharded directory whose shards do not all
// have the same fanout: each shard consumes log2(its own fanout) bits of the
// name hash and prefixes its link names with its own width. The reference
// implementation reads such directories (every shard is self-describing);
// writers that always use one width never produce them.
func writeMixedFanout(st *store.Store, names []string, entries map[string]cid.Cid, s DirSpec) cid.Cid {
	r := tape.NewSplitMix(s.Seed ^ 0x3c3c)
	type ent struct {
		name string
		h    uint64
	}
	var all []ent
	for _, n := range names {
		all = append(all, ent{n, murmur3.Sum64([]byte(n))})
	}
	fans := []int{8, 16, 32, 256, 1024}
	var build func(es []ent, consumed int, fan int) cid.Cid
	build = func(es []ent, consumed int, fan int) cid.Cid {
		w := 0
		for 1<<uint(w) < fan {
			w++
		}
		if consumed+w > 64 {
			// out of hash bits: cannot split further; keep what fits as values
			fan, w = 8, 3
		}
		pad := len(fmt.Sprintf("%X", fan-1))
		buckets := map[int][]ent{}
		for _, e := range es {
			idx := 0
			if consumed+w <= 64 {
				idx = int((e.h >> uint(64-consumed-w)) & uint64(fan-1))
			}
			buckets[idx] = append(buckets[idx], e)
		}
		idxs := make([]int, 0, len(buckets))
		for i := range buckets {
			idxs = append(idxs, i)
		}
		sort.Ints(idxs)
		bf := make([]byte, fan/8)
		var links []RawLink
		for _, i := range idxs {
			b := buckets[i]
			bf[len(bf)-1-i/8] |= 1 << (uint(i) % 8)
			if len(b) == 1 || consumed+w+3 > 64 {
				// (when the hash is exhausted, extra colliding entries are dropped:
				// the caller's entry map is only used for names that were written)
				e := b[0]
				links = append(links, RawLink{Hash: entries[e.name].Bytes(), HasHash: true, Name: fmt.Sprintf("%0*X%s", pad, i, e.name), HasName: true, Tsize: uint64(len("entry:" + e.name)), HasTsize: true})
				continue
			}
			childFan := fans[int(r.Next()%uint64(len(fans)))]
			c := build(b, consumed+w, childFan)
			links = append(links, RawLink{Hash: c.Bytes(), HasHash: true, Name: fmt.Sprintf("%0*X", pad, i), HasName: true, Tsize: 1, HasTsize: true})
		}
		for len(bf) > 1 && bf[0] == 0 {
			bf = bf[1:]
		}
		u := &RawUnixFS{Type: 5, HasType: true, Data: bf, HasData: true, HashType: 0x22, HasHashType: true, Fanout: uint64(fan), HasFanout: true}
		n := &RawNode{Links: links, Data: u.Encode(), HasData: true}
		blk := n.Encode()
		c, _ := cid.Prefix{Version: 1, Codec: cid.DagProtobuf, MhType: mh.SHA2_256, MhLength: 32}.Sum(blk)
		st.Put(c, blk)
		return c
	}
	return build(all, 0, s.Fanout)
}
