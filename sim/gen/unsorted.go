package gen

import (
	"github.com/ipfs/go-cid"
	mh "github.com/multiformats/go-multihash"

	"verif/sim/store"
	"verif/sim/tape"
)

// WriteUnsortedDir writes a basic directory block whose links come in a
// seeded, generally unsorted order.
func WriteUnsortedDir(st *store.Store, names []string, entries map[string]cid.Cid, seed uint64) cid.Cid {
	r := tape.NewSplitMix(seed ^ 0x7777)
	order := append([]string(nil), names...)
	for i := len(order) - 1; i > 0; i-- {
		j := int(r.Next() % uint64(i+1))
		order[i], order[j] = order[j], order[i]
	}
	// make sure it is not accidentally sorted: largest name first
	for i := 1; i < len(order); i++ {
		if order[i] > order[0] {
			order[0], order[i] = order[i], order[0]
		}
	}
	n := &RawNode{Data: []byte{0x08, 0x01}, HasData: true} // Type=Directory
	for _, nm := range order {
		n.Links = append(n.Links, RawLink{Hash: entries[nm].Bytes(), HasHash: true, Name: nm, HasName: true, Tsize: 1, HasTsize: true})
	}
	b := n.Encode()
	c, _ := cid.Prefix{Version: 1, Codec: cid.DagProtobuf, MhType: mh.SHA2_256, MhLength: 32}.Sum(b)
	st.Put(c, b)
	return c
}

// NamedLink is one directory link of WriteDirLinks.
type NamedLink struct {
	Name string
	Cid  cid.Cid
}

// WriteDirLinks writes a basic directory block with exactly the given links
// in the given order: names may repeat (dag-pb does not forbid it; readers
// resolve a name to the FIRST link carrying it) and need not be sorted.
func WriteDirLinks(st *store.Store, links []NamedLink) cid.Cid {
	n := &RawNode{Data: []byte{0x08, 0x01}, HasData: true} // Type=Directory
	for _, l := range links {
		n.Links = append(n.Links, RawLink{Hash: l.Cid.Bytes(), HasHash: true, Name: l.Name, HasName: true, Tsize: 1, HasTsize: true})
	}
	b := n.Encode()
	c, _ := cid.Prefix{Version: 1, Codec: cid.DagProtobuf, MhType: mh.SHA2_256, MhLength: 32}.Sum(b)
	st.Put(c, b)
	return c
}
