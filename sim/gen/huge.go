package gen

import (
	"github.com/ipfs/boxo/ipld/merkledag"
	ft "github.com/ipfs/boxo/ipld/unixfs"
	pb "github.com/ipfs/boxo/ipld/unixfs/pb"
	"github.com/ipfs/go-cid"
	format "github.com/ipfs/go-ipld-format"

	"verif/sim/store"
	"verif/sim/tape"
)

// WriteHugeFile writes a de-duplicated file of several gigabytes out of a
// handful of blocks: two different leaves, each repeated through three or
// four interior levels, so that the two halves of the file are distinct
// sub-DAGs whose byte spans exceed 2^31 and whose offsets exceed 2^32. This
// is what a large sparse / zero-padded / repetitive file looks like after
// de-duplication, and it is the only way offsets beyond 32 bits occur with
// kilobytes of stored data.
func WriteHugeFile(st *store.Store, seed uint64) cid.Cid {
	r := tape.NewSplitMix(seed)
	leafSize := []int{4096, 16384, 65536}[r.Next()%3]
	width := []int{174, 128, 200}[r.Next()%3]
	type piece struct {
		c    cid.Cid
		size uint64
		tsz  uint64
	}
	mkLeaf := func(tag byte) piece {
		b := make([]byte, leafSize)
		for i := range b {
			b[i] = tag ^ byte(r.Next())
		}
		c := putRaw(st, b)
		return piece{c, uint64(len(b)), uint64(len(b))}
	}
	mkInterior := func(child piece, n int, extra ...piece) piece {
		fsn := ft.NewFSNode(pb.Data_File)
		nd := merkledag.NodeWithData(nil)
		_ = nd.SetCidBuilder(merkledag.V1CidPrefix())
		var total, tsz uint64
		add := func(p piece) {
			fsn.AddBlockSize(p.size)
			total += p.size
			tsz += p.tsz
			_ = nd.AddRawLink("", &format.Link{Cid: p.c, Size: p.tsz})
		}
		for i := 0; i < n; i++ {
			add(child)
		}
		for _, e := range extra {
			add(e)
		}
		b, _ := fsn.GetBytes()
		nd.SetData(b)
		st.Put(nd.Cid(), nd.RawData())
		return piece{nd.Cid(), total, tsz + uint64(len(nd.RawData()))}
	}
	grow := func(leaf piece) piece {
		p := leaf
		for p.size < 3<<30 {
			n := width
			if p.size*uint64(width) > 6<<30 {
				n = int((3<<30)/p.size) + 1
			}
			p = mkInterior(p, n)
		}
		return p
	}
	a := grow(mkLeaf(0xA0))
	b := grow(mkLeaf(0x0B))
	tail := mkLeaf(0x77)
	root := mkInterior(a, 1, b, tail)
	return root.c
}
