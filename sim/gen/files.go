package gen

import (
	"bytes"
	"fmt"

	chunk "github.com/ipfs/boxo/chunker"
	"github.com/ipfs/boxo/ipld/merkledag"
	ft "github.com/ipfs/boxo/ipld/unixfs"
	"github.com/ipfs/boxo/ipld/unixfs/importer/balanced"
	"github.com/ipfs/boxo/ipld/unixfs/importer/helpers"
	"github.com/ipfs/boxo/ipld/unixfs/importer/trickle"
	pb "github.com/ipfs/boxo/ipld/unixfs/pb"
	"github.com/ipfs/go-cid"
	format "github.com/ipfs/go-ipld-format"
	"github.com/ipfs/go-unixfsnode/data/builder"
	cidlink "github.com/ipld/go-ipld-prime/linking/cid"
	mh "github.com/multiformats/go-multihash"

	"verif/sim/store"
	"verif/sim/tape"
	"verif/sim/world"
)

// FileSpec describes one file DAG to be written.
type FileSpec struct {
	Writer    string `json:"writer"` // builder | boxo-balanced | boxo-trickle | odd | odd-noblocksizes | odd-partial-meta | single-raw | single-pb | single-pb-nodata
	Size      int    `json:"size"`
	Chunker   string `json:"chunker"`
	Width     int    `json:"width"`
	RawLeaves bool   `json:"raw_leaves"`
	CidV1     bool   `json:"cid_v1"`
	Repeat    bool   `json:"repeat"` // content made of repeated chunks (de-duplicated blocks)
	Seed      uint64 `json:"content_seed"`
}

func (s FileSpec) String() string {
	return fmt.Sprintf("%s size=%d chunker=%q width=%d raw=%v v1=%v repeat=%v", s.Writer, s.Size, s.Chunker, s.Width, s.RawLeaves, s.CidV1, s.Repeat)
}

// FileOpts restricts the drawn specs.
type FileOpts struct {
	MaxSize      int
	AllowOdd     bool // harness-written legal oddities (uneven leaves, zero-length leaf)
	AllowNoSizes bool // interior nodes without BlockSizes
	MultiBlock   bool // insist on more than one block
	OnlyBuilder  bool
	NoBuilder    bool
}

// DrawFileSpec reads a fixed number of tape cells (8) and decodes a spec.
// Index 0 of every choice is the simplest alternative.
func DrawFileSpec(t *tape.Tape, o FileOpts) FileSpec {
	start := t.Pos()
	var s FileSpec
	writers := []string{"builder", "boxo-balanced", "boxo-trickle"}
	if o.OnlyBuilder {
		writers = []string{"builder"}
	} else if o.NoBuilder {
		writers = []string{"boxo-balanced", "boxo-trickle"}
	}
	if !o.MultiBlock && !o.OnlyBuilder {
		writers = append(writers, "single-raw", "single-pb", "single-pb-nodata")
	}
	if o.AllowOdd && !o.OnlyBuilder {
		writers = append(writers, "odd", "odd")
	}
	if o.AllowNoSizes && !o.OnlyBuilder {
		writers = append(writers, "odd-noblocksizes", "odd-partial-meta")
	}
	s.Writer = writers[t.Intn(len(writers))]
	// chunk size: small so that kilobytes give deep trees
	csz := []int{16, 1, 2, 3, 7, 8, 31, 32, 64, 100, 256, 1000, 1024}[t.Intn(13)]
	chk := t.Pick(10, 2, 1)
	switch chk {
	case 0:
		s.Chunker = fmt.Sprintf("size-%d", csz)
	case 1:
		s.Chunker = []string{"rabin-16-32-64", "rabin-32-64-128", "rabin-64-128-256"}[csz%3]
		if csz < 16 {
			csz = 32
		}
	case 2:
		// the default chunker under its three spellings: single chunk for our sizes
		s.Chunker = []string{"size-262144", "", "default", "rabin", "buzhash"}[csz%5]
		csz = 262144
	}
	s.Width = []int{2, 3, 4, 5, 8, 174, 300}[t.Pick(4, 4, 2, 2, 1, 1, 1)]
	// size: biased to chunk-count boundaries w^k-1, w^k, w^k+1
	max := o.MaxSize
	if max <= 0 {
		max = 16 << 10
	}
	szKind := t.Pick(2, 5, 3, 1)
	raw := t.Raw()
	cs := csz
	if cs > 4096 {
		cs = 4096
	}
	switch szKind {
	case 0: // tiny
		s.Size = int(raw % 5) // 0..4
	case 1: // around width^k chunks
		w := s.Width
		if w > 8 {
			w = 3
		}
		k := 1 + int(raw%3)
		n := 1
		for i := 0; i < k; i++ {
			n *= w
		}
		n += int((raw>>8)%3) - 1
		s.Size = n*cs + int((raw>>16)%3) - 1
	case 2: // arbitrary
		s.Size = int(raw % uint64(max+1))
	case 3: // exact multiple of the chunk
		s.Size = cs * int(1+raw%40)
	}
	if s.Size < 0 {
		s.Size = 0
	}
	if s.Size > max {
		s.Size = max
	}
	if s.Size/cs > 3000 {
		// keep DAGs to a few thousand blocks whatever the size bound
		s.Size = 3000*cs + s.Size%cs
	}
	if o.MultiBlock && s.Size < 2*cs {
		s.Size = 2*cs + int(raw%uint64(8*cs+1))
		if s.Size > max {
			s.Size = max
		}
	}
	s.RawLeaves = t.Intn(2) == 0
	s.CidV1 = t.Intn(2) == 0
	s.Repeat = t.Intn(5) == 4
	s.Seed = t.Raw()
	for t.Pos() < start+8 {
		t.Skip(1)
	}
	return s
}

// Content produces the file bytes for a spec, deterministically.
func Content(s FileSpec) []byte {
	out := make([]byte, s.Size)
	r := tape.NewSplitMix(s.Seed)
	if s.Repeat {
		// period of 64 bytes: with size-N chunkers whose N divides or is a
		// multiple of 64 every chunk is identical, so blocks de-duplicate
		pat := make([]byte, 64)
		for i := range pat {
			pat[i] = byte(r.Next())
		}
		for i := range out {
			out[i] = pat[i%64]
		}
		return out
	}
	for i := 0; i < len(out); i += 8 {
		v := r.Next()
		for j := 0; j < 8 && i+j < len(out); j++ {
			out[i+j] = byte(v >> (8 * uint(j)))
		}
	}
	return out
}

// ErrWriter marks a scenario whose precondition (the DAG could be written)
// failed; such scenarios are skipped as undecidable, never judged.
type ErrWriter struct{ Err error }

func (e ErrWriter) Error() string { return "writer failed: " + e.Err.Error() }

// WriteFile writes the DAG for spec into st (harness side: no logging, no
// faults) and returns the root and the content given to the writer.
func WriteFile(st *store.Store, s FileSpec) (cid.Cid, []byte, error) {
	content := Content(s)
	switch s.Writer {
	case "builder":
		c, err := writeWithBuilder(st, content, s.Chunker, s.Width)
		return c, content, err
	case "boxo-balanced", "boxo-trickle":
		c, err := writeWithBoxo(st, content, s)
		return c, content, err
	case "single-raw":
		c := putRaw(st, content)
		return c, content, nil
	case "single-pb":
		n := merkledag.NodeWithData(ft.FilePBData(content, uint64(len(content))))
		setBuilder(n, s.CidV1)
		st.Put(n.Cid(), n.RawData())
		return n.Cid(), content, nil
	case "single-pb-nodata":
		// a File node with neither Data payload nor links: empty file
		fsn := ft.NewFSNode(pb.Data_File)
		b, _ := fsn.GetBytes()
		n := merkledag.NodeWithData(b)
		setBuilder(n, s.CidV1)
		st.Put(n.Cid(), n.RawData())
		return n.Cid(), nil, nil
	case "odd", "odd-noblocksizes", "odd-partial-meta":
		c, err := writeOdd(st, content, s, s.Writer == "odd-noblocksizes")
		return c, content, err
	}
	return cid.Undef, nil, fmt.Errorf("unknown writer %q", s.Writer)
}

func setBuilder(n *merkledag.ProtoNode, v1 bool) {
	if v1 {
		_ = n.SetCidBuilder(merkledag.V1CidPrefix())
	} else {
		_ = n.SetCidBuilder(merkledag.V0CidPrefix())
	}
}

func putRaw(st *store.Store, data []byte) cid.Cid {
	c, _ := cid.Prefix{Version: 1, Codec: cid.Raw, MhType: mh.SHA2_256, MhLength: 32}.Sum(data)
	st.Put(c, data)
	return c
}

// PutRaw stores a raw leaf block (exported for other generators).
func PutRaw(st *store.Store, data []byte) cid.Cid { return putRaw(st, data) }

func writeWithBuilder(st *store.Store, content []byte, chunker string, width int) (c cid.Cid, err error) {
	defer func() {
		if r := recover(); r != nil {
			err = ErrWriter{fmt.Errorf("builder panic: %v", r)}
		}
	}()
	scratch := store.New()
	w := world.New(scratch, false)
	old := builder.DefaultLinksPerBlock
	builder.DefaultLinksPerBlock = width
	defer func() { builder.DefaultLinksPerBlock = old }()
	l, _, err := builder.BuildUnixFSFile(bytes.NewReader(content), chunker, &w.LS)
	if err != nil {
		return cid.Undef, ErrWriter{err}
	}
	if l == nil {
		return cid.Undef, ErrWriter{fmt.Errorf("builder returned nil link")}
	}
	for _, k := range scratch.Keys() {
		b, _ := scratch.Get(k)
		st.Put(k, b)
	}
	return l.(cidlink.Link).Cid, nil
}

func writeWithBoxo(st *store.Store, content []byte, s FileSpec) (cid.Cid, error) {
	ds := newMapDag(st)
	spl, err := chunk.FromString(bytes.NewReader(content), s.Chunker)
	if err != nil {
		return cid.Undef, err
	}
	var cb cid.Builder
	if s.CidV1 {
		cb = merkledag.V1CidPrefix()
	} else {
		cb = merkledag.V0CidPrefix()
	}
	dbp := helpers.DagBuilderParams{Dagserv: ds, Maxlinks: s.Width, RawLeaves: s.RawLeaves, CidBuilder: cb}
	db, err := dbp.New(spl)
	if err != nil {
		return cid.Undef, err
	}
	var nd format.Node
	if s.Writer == "boxo-trickle" {
		nd, err = trickle.Layout(db)
	} else {
		nd, err = balanced.Layout(db)
	}
	if err != nil {
		return cid.Undef, err
	}
	return nd.Cid(), nil
}

// writeOdd writes a legal but unusual file: uneven leaf sizes, a zero-length
// leaf, mixed raw and protobuf leaves, a nested interior node next to leaves.
func writeOdd(st *store.Store, content []byte, s FileSpec, noSizes bool) (cid.Cid, error) {
	r := tape.NewSplitMix(s.Seed ^ 0xA5A5)
	type piece struct {
		c    cid.Cid
		size uint64
		tsz  uint64
	}
	// some small leaves are INLINED: their CID carries the block itself in an
	// identity multihash (what importers do with the inline option). The
	// link system still asks its storage for them (ipld-prime does not
	// special-case identity CIDs; an identity-aware store answers from the CID),
	// so for the simulated store they are blocks like any other. Both raw and
	// dag-pb wrapped leaves are inlined: for the latter the digest is the
	// encoded node, which is longer than the content it holds.
	r2 := tape.NewSplitMix(s.Seed ^ 0x1D1D)
	inline := func(codec uint64, block []byte) cid.Cid {
		h, err := mh.Sum(block, mh.IDENTITY, -1)
		if err != nil {
			panic("harness: identity multihash: " + err.Error())
		}
		c := cid.NewCidV1(codec, h)
		st.Put(c, block)
		return c
	}
	mkLeaf := func(b []byte) piece {
		inl := r2.Next()%6 == 0 && len(b) <= 60
		if r.Next()%2 == 0 {
			if inl {
				return piece{inline(cid.Raw, b), uint64(len(b)), uint64(len(b))}
			}
			c := putRaw(st, b)
			return piece{c, uint64(len(b)), uint64(len(b))}
		}
		n := merkledag.NodeWithData(ft.FilePBData(b, uint64(len(b))))
		setBuilder(n, s.CidV1)
		if inl {
			return piece{inline(cid.DagProtobuf, n.RawData()), uint64(len(b)), uint64(len(n.RawData()))}
		}
		st.Put(n.Cid(), n.RawData())
		return piece{n.Cid(), uint64(len(b)), uint64(len(n.RawData()))}
	}
	mkInterior := func(ps []piece) piece {
		fsn := ft.NewFSNode(pb.Data_File)
		n := merkledag.NodeWithData(nil)
		setBuilder(n, s.CidV1)
		var total, tsz uint64
		for _, p := range ps {
			if !noSizes {
				fsn.AddBlockSize(p.size)
			}
			total += p.size
			tsz += p.tsz
			lsz := p.tsz
			if p.c.Prefix().Codec == cid.DagProtobuf && r2.Next()%6 == 0 {
				// Tsize is optional and nothing validates it: a writer that does
				// not track cumulative sizes leaves 0. (Never on raw children,
				// whose Tsize readers use as their length.)
				lsz = 0
			}
			_ = n.AddRawLink("", &format.Link{Cid: p.c, Size: lsz})
		}
		b, _ := fsn.GetBytes()
		// legal variations no importer produces: the Raw type on a node with
		// links (readers treat File and Raw alike), and UnixFS 1.5 metadata
		// (mode, mtime incl. times before 1970) on interior nodes
		if v := r.Next() % 8; v < 3 && !noSizes {
			if u, ok := DecodeRawUnixFS(b); ok {
				switch v {
				case 0:
					u.Type = 0 // Raw
				case 1:
					u.Mode, u.HasMode = []uint64{0o644, 0o755, 0o600, 0o100644}[r.Next()%4], true
					u.HasMtime, u.MtimeSec = true, []int64{0, 1, 1700000000, -1, -86400 * 365}[r.Next()%5]
				default:
					u.HasMtime, u.MtimeSec, u.HasNanos, u.MtimeNanos = true, -int64(r.Next()%100000), true, uint32(r.Next()%1000000000)
				}
				b = u.Encode()
			}
		}
		if s.Writer == "odd-partial-meta" {
			// each interior node on its own keeps or drops the two optional
			// size records: filesize only, blocksizes only, neither, both
			if u, ok := DecodeRawUnixFS(b); ok {
				switch r2.Next() % 4 {
				case 0:
					u.HasFileSize, u.FileSize = false, 0
				case 1:
					u.BlockSizes = nil
				case 2:
					u.HasFileSize, u.FileSize, u.BlockSizes = false, 0, nil
				}
				b = u.Encode()
			}
		}
		if noSizes {
			// Type=File and nothing else: neither FileSize nor BlockSizes are
			// declared (boxo's FSNode would always emit filesize=0, which
			// would contradict the links), so the reader must derive lengths
			// from the children
			b = []byte{0x08, 0x02}
		}
		n.SetData(b)
		st.Put(n.Cid(), n.RawData())
		return piece{n.Cid(), total, tsz + uint64(len(n.RawData()))}
	}
	// cut content into uneven pieces
	var leaves []piece
	rest := content
	for len(rest) > 0 {
		k := int(r.Next()%97) + 1
		if k > len(rest) {
			k = len(rest)
		}
		leaves = append(leaves, mkLeaf(rest[:k]))
		rest = rest[k:]
		if r.Next()%5 == 0 && !noSizes {
			leaves = append(leaves, mkLeaf(nil)) // zero-length leaf
		}
	}
	if len(leaves) == 0 {
		leaves = append(leaves, mkLeaf(nil))
	}
	if noSizes {
		// raw leaves carry their size in Tsize; protobuf children will be
		// opened by the reader. Keep both kinds.
	}
	// group some runs of leaves under interior nodes
	var top []piece
	for i := 0; i < len(leaves); {
		k := int(r.Next()%4) + 1
		if i+k > len(leaves) {
			k = len(leaves) - i
		}
		if k >= 2 && r.Next()%2 == 0 {
			top = append(top, mkInterior(leaves[i:i+k]))
		} else {
			top = append(top, leaves[i:i+k]...)
		}
		i += k
	}
	root := mkInterior(top)
	// sometimes wrap the root in one or two single-link file nodes: legal, and
	// never produced by the importers
	for w := int(r.Next() % 4); w > 1; w-- {
		root = mkInterior([]piece{root})
	}
	return root.c, nil
}
