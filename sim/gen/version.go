package gen

import (
	"embed"
	"sort"

	"verif/sim/tape"
)

//go:embed *.go
var sources embed.FS

// SourceHash fingerprints the generators (they decode tape cells into DAGs).
func SourceHash() uint64 {
	h := uint64(14695981039346656037)
	ents, _ := sources.ReadDir(".")
	names := []string{}
	for _, e := range ents {
		names = append(names, e.Name())
	}
	sort.Strings(names)
	for _, n := range names {
		b, _ := sources.ReadFile(n)
		h ^= tape.HashString(n)
		h *= 1099511628211
		h ^= tape.HashString(string(b))
		h *= 1099511628211
	}
	return h
}
