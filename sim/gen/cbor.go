package gen

import (
	"bytes"

	"github.com/ipfs/go-cid"
	"github.com/ipld/go-ipld-prime/codec/dagcbor"
	"github.com/ipld/go-ipld-prime/datamodel"
	"github.com/ipld/go-ipld-prime/fluent/qp"
	cidlink "github.com/ipld/go-ipld-prime/linking/cid"
	"github.com/ipld/go-ipld-prime/node/basicnode"
	mh "github.com/multiformats/go-multihash"

	"verif/sim/store"
)

// PutHostileCbor stores a dag-cbor block that looks a little like a dag-pb
// node (or nothing like one) and returns its CID: what a file or directory
// may find behind one of its links when the link was not written by a UnixFS
// importer. variant selects the shape.
func PutHostileCbor(st *store.Store, variant int, some cid.Cid) cid.Cid {
	var n datamodel.Node
	var err error
	switch variant % 7 {
	case 0: // Links is not a list
		n, err = qp.BuildMap(basicnode.Prototype.Any, 1, func(ma datamodel.MapAssembler) {
			qp.MapEntry(ma, "Links", qp.String("x"))
		})
	case 1: // empty Links, no Data
		n, err = qp.BuildMap(basicnode.Prototype.Any, 1, func(ma datamodel.MapAssembler) {
			qp.MapEntry(ma, "Links", qp.List(0, func(datamodel.ListAssembler) {}))
		})
	case 2: // a link list whose entries are not maps
		n, err = qp.BuildMap(basicnode.Prototype.Any, 2, func(ma datamodel.MapAssembler) {
			qp.MapEntry(ma, "Links", qp.List(2, func(la datamodel.ListAssembler) {
				qp.ListEntry(la, qp.Int(7))
				qp.ListEntry(la, qp.Link(cidlink.Link{Cid: some}))
			}))
			qp.MapEntry(ma, "Data", qp.Bytes([]byte{0x08, 0x02}))
		})
	case 3: // dag-pb shaped, with a real link
		n, err = qp.BuildMap(basicnode.Prototype.Any, 2, func(ma datamodel.MapAssembler) {
			qp.MapEntry(ma, "Links", qp.List(1, func(la datamodel.ListAssembler) {
				qp.ListEntry(la, qp.Map(3, func(lm datamodel.MapAssembler) {
					qp.MapEntry(lm, "Hash", qp.Link(cidlink.Link{Cid: some}))
					qp.MapEntry(lm, "Name", qp.String("n"))
					qp.MapEntry(lm, "Tsize", qp.Int(3))
				}))
			}))
			qp.MapEntry(ma, "Data", qp.Bytes([]byte{0x08, 0x02, 0x18, 0x03}))
		})
	case 4:
		n = basicnode.NewString("just a string")
	case 5:
		n, err = qp.BuildList(basicnode.Prototype.Any, 3, func(la datamodel.ListAssembler) {
			qp.ListEntry(la, qp.Int(1))
			qp.ListEntry(la, qp.Int(2))
			qp.ListEntry(la, qp.Bytes([]byte("b")))
		})
	default: // Data is not bytes
		n, err = qp.BuildMap(basicnode.Prototype.Any, 2, func(ma datamodel.MapAssembler) {
			qp.MapEntry(ma, "Data", qp.Int(5))
			qp.MapEntry(ma, "Links", qp.List(0, func(datamodel.ListAssembler) {}))
		})
	}
	if err != nil {
		return cid.Undef
	}
	var buf bytes.Buffer
	if err := dagcbor.Encode(n, &buf); err != nil {
		return cid.Undef
	}
	c, _ := cid.Prefix{Version: 1, Codec: 0x71, MhType: mh.SHA2_256, MhLength: 32}.Sum(buf.Bytes())
	st.Put(c, buf.Bytes())
	return c
}
