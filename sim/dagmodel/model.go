// Package dagmodel is the reference model. It never calls into
// go-unixfsnode: stored blocks are parsed with boxo's merkledag / unixfs
// protobuf code and turned into trivially simple values (a byte slice plus a
// span table for files, a map plus hash paths for sharded directories).
package dagmodel

import (
	"fmt"
	"math/bits"

	"github.com/ipfs/boxo/ipld/merkledag"
	ft "github.com/ipfs/boxo/ipld/unixfs"
	pb "github.com/ipfs/boxo/ipld/unixfs/pb"
	"github.com/ipfs/go-cid"
	"github.com/spaolacci/murmur3"
	"google.golang.org/protobuf/encoding/protowire"
)

// Getter is the model's view of the store: durable bytes by CID.
type Getter interface {
	Get(c cid.Cid) ([]byte, bool)
}

const (
	codecRaw   = 0x55
	codecDagPB = 0x70
)

// Span is one occurrence of a block in the depth-first walk of a file.
type Span struct {
	Cid    cid.Cid
	Start  int64 // first content byte below this block
	End    int64 // one past the last content byte below this block
	Depth  int
	Leaf   bool
	Parent int // index into Spans, -1 for the root
	// what the block itself records (dag-pb interior nodes; parsed from the
	// stored bytes with a parser of the model's own)
	Raw         bool // raw codec
	HasFileSize bool // UnixFS Data.filesize is present
	NSizes      int  // number of UnixFS Data.blocksizes entries
}

// File is the model of a file entity.
type File struct {
	Root    cid.Cid
	Content []byte
	Spans   []Span // pre-order, link order
	// Inline is true when the root block is the only block.
	MaxDepth int
	// Sparse files (BuildFileSparse) do not materialise Content: Len is the
	// logical length and ReadAt computes bytes from the leaf spans. They are
	// how de-duplicated files of many gigabytes are modelled.
	Sparse   bool
	Len      int64
	leaves   map[string][]byte
	children [][]int
}

// BuildFile walks a stored file DAG.
func BuildFile(g Getter, root cid.Cid) (*File, error) {
	f := &File{Root: root}
	if err := f.walk(g, root, 0, -1); err != nil {
		return nil, err
	}
	return f, nil
}

// BuildFileSparse walks a stored file DAG without materialising its content.
func BuildFileSparse(g Getter, root cid.Cid) (*File, error) {
	f := &File{Root: root, Sparse: true, leaves: map[string][]byte{}}
	if err := f.walk(g, root, 0, -1); err != nil {
		return nil, err
	}
	return f, nil
}

// ReadAt returns the logical bytes [a,b) of a sparse file.
func (f *File) ReadAt(a, b int64) []byte {
	if !f.Sparse {
		return f.Content[a:b]
	}
	out := make([]byte, 0, b-a)
	// leaf spans are in increasing order of Start; binary search the first
	lo, hi := 0, len(f.Spans)
	for lo < hi {
		mid := (lo + hi) / 2
		if f.Spans[mid].End <= a {
			lo = mid + 1
		} else {
			hi = mid
		}
	}
	// Spans are pre-order: End of an interior span can exceed later leaves'
	// starts, so scan back a little to be safe, then forward over leaves
	for lo > 0 && f.Spans[lo-1].End > a {
		lo--
	}
	for i := lo; i < len(f.Spans) && int64(len(out)) < b-a; i++ {
		s := f.Spans[i]
		if !s.Leaf || s.End <= a || s.Start >= b {
			continue
		}
		data := f.leaves[s.Cid.KeyString()]
		from, to := int64(0), s.End-s.Start
		if a > s.Start {
			from = a - s.Start
		}
		if b < s.End {
			to = b - s.Start
		}
		out = append(out, data[from:to]...)
	}
	return out
}

func (f *File) pos() int64 {
	if f.Sparse {
		return f.Len
	}
	return int64(len(f.Content))
}

func (f *File) emit(c cid.Cid, b []byte) {
	if f.Sparse {
		f.Len += int64(len(b))
		if _, ok := f.leaves[c.KeyString()]; !ok {
			f.leaves[c.KeyString()] = b
		}
		return
	}
	f.Content = append(f.Content, b...)
}

func (f *File) walk(g Getter, c cid.Cid, depth, parent int) error {
	if depth > 64 {
		return fmt.Errorf("model: file DAG too deep")
	}
	data, ok := g.Get(c)
	if !ok {
		return fmt.Errorf("model: block %s not in store", c)
	}
	if depth > f.MaxDepth {
		f.MaxDepth = depth
	}
	idx := len(f.Spans)
	f.Spans = append(f.Spans, Span{Cid: c, Start: f.pos(), Depth: depth, Parent: parent})
	switch c.Prefix().Codec {
	case codecRaw:
		f.emit(c, data)
		f.Spans[idx].Leaf = true
		f.Spans[idx].Raw = true
	case codecDagPB:
		pn, err := merkledag.DecodeProtobuf(data)
		if err != nil {
			return fmt.Errorf("model: decode %s: %w", c, err)
		}
		fsn, err := ft.FSNodeFromBytes(pn.Data())
		if err != nil {
			return fmt.Errorf("model: unixfs data of %s: %w", c, err)
		}
		switch fsn.Type() {
		case pb.Data_File, pb.Data_Raw:
		default:
			return fmt.Errorf("model: %s is not a file node (type %v)", c, fsn.Type())
		}
		f.Spans[idx].HasFileSize, f.Spans[idx].NSizes = scanUnixFSSizes(pn.Data())
		if len(pn.Links()) == 0 {
			f.emit(c, fsn.Data())
			f.Spans[idx].Leaf = true
		} else {
			for _, l := range pn.Links() {
				if err := f.walk(g, l.Cid, depth+1, idx); err != nil {
					return err
				}
			}
		}
	default:
		return fmt.Errorf("model: unsupported codec %x", c.Prefix().Codec)
	}
	f.Spans[idx].End = f.pos()
	return nil
}

// DFSFirst is the order in which distinct blocks are first met by a
// depth-first, link-order walk.
func (f *File) DFSFirst() []cid.Cid {
	seen := map[string]bool{}
	var out []cid.Cid
	for _, s := range f.Spans {
		k := s.Cid.KeyString()
		if !seen[k] {
			seen[k] = true
			out = append(out, s.Cid)
		}
	}
	return out
}

// BlockSet is the set of distinct blocks of the file.
func (f *File) BlockSet() map[string]bool {
	m := map[string]bool{}
	for _, s := range f.Spans {
		m[s.Cid.KeyString()] = true
	}
	return m
}

// Allowed returns the set of blocks a read of [a,b) may touch: blocks whose
// span intersects [a,b) and their ancestors. Zero-length blocks lying inside
// [a,b] are tolerated. For an empty request the blocks containing a are
// tolerated. The root is always allowed.
func (f *File) Allowed(a, b int64) map[string]bool {
	m := map[string]bool{}
	mark := func(i int) {
		for i >= 0 {
			m[f.Spans[i].Cid.KeyString()] = true
			i = f.Spans[i].Parent
		}
	}
	mark(0)
	for i, s := range f.Spans {
		switch {
		case s.Start == s.End:
			if s.Start >= a && s.Start <= b {
				mark(i)
			}
		case a == b:
			if s.Start <= a && a < s.End {
				mark(i)
			}
		default:
			if s.Start < b && a < s.End {
				mark(i)
			}
		}
	}
	return m
}

// scanUnixFSSizes reads a UnixFS Data message just far enough to tell whether
// filesize (field 3) is present and how many blocksizes (field 4, unpacked or
// packed) it records.
func scanUnixFSSizes(b []byte) (hasFileSize bool, nSizes int) {
	for len(b) > 0 {
		num, typ, n := protowire.ConsumeTag(b)
		if n < 0 {
			return
		}
		b = b[n:]
		switch typ {
		case protowire.VarintType:
			_, n := protowire.ConsumeVarint(b)
			if n < 0 {
				return
			}
			b = b[n:]
			if num == 3 {
				hasFileSize = true
			}
			if num == 4 {
				nSizes++
			}
		case protowire.BytesType:
			v, n := protowire.ConsumeBytes(b)
			if n < 0 {
				return
			}
			b = b[n:]
			if num == 4 {
				for len(v) > 0 {
					_, m := protowire.ConsumeVarint(v)
					if m < 0 {
						break
					}
					v = v[m:]
					nSizes++
				}
			}
		default:
			n := protowire.ConsumeFieldValue(num, typ, b)
			if n < 0 {
				return
			}
			b = b[n:]
		}
	}
	return
}

// AllowedLazy is Allowed plus the blocks a lazy reader may have to open only
// to MEASURE: a file node that does not record the size of a child has no
// other way to learn where that child's bytes end than to open it (its root
// block), and if that child in turn records no filesize, to measure its
// children the same way. Raw children never need that: their size is the
// Tsize of the link. A node that records all its block sizes (every
// importer's output) adds nothing, so for ordinary DAGs this is Allowed.
func (f *File) AllowedLazy(a, b int64) map[string]bool {
	m := f.Allowed(a, b)
	if f.children == nil {
		f.children = make([][]int, len(f.Spans))
		for i, s := range f.Spans {
			if s.Parent >= 0 {
				f.children[s.Parent] = append(f.children[s.Parent], i)
			}
		}
	}
	var measure func(i int, depth int)
	measure = func(i int, depth int) {
		if depth > 80 {
			return
		}
		for k, j := range f.children[i] {
			c := f.Spans[j]
			if c.Raw || k < f.Spans[i].NSizes {
				continue
			}
			m[c.Cid.KeyString()] = true
			if !c.Leaf && !c.HasFileSize {
				measure(j, depth+1)
			}
		}
	}
	// every interior node whose reader a read of [a,b) builds measures all
	// its links; the root's is built by any read, and an end-relative seek on
	// a root without filesize measures the root's links too
	for i, s := range f.Spans {
		if s.Leaf || !m[s.Cid.KeyString()] {
			continue
		}
		measure(i, 0)
	}
	return m
}

// Boundaries returns every distinct span edge (chunk / interior boundaries).
func (f *File) Boundaries() []int64 {
	seen := map[int64]bool{}
	var out []int64
	for _, s := range f.Spans {
		for _, v := range []int64{s.Start, s.End} {
			if !seen[v] {
				seen[v] = true
				out = append(out, v)
			}
		}
	}
	return out
}

// ---------------------------------------------------------------- HAMT

// ShardLink is one link of a shard block.
type ShardLink struct {
	FullName string
	Cid      cid.Cid
	IsShard  bool
	Entry    string // un-prefixed name for value links
	Child    *Shard // nil when the child block is absent from the store
}

// Shard is one HAMT shard block.
type Shard struct {
	Cid      cid.Cid
	Fanout   int
	Log2     int
	PadLen   int
	Bitfield []byte
	Links    []ShardLink
	Depth    int
}

// Dir is the model of a sharded directory.
type Dir struct {
	Root    *Shard
	Entries map[string]cid.Cid
	// Order is the depth-first, link-order listing of entries.
	Order []DirEntry
	// Shards is the pre-order list of shard blocks (root first).
	Shards []*Shard
	// MaxDepth is the deepest shard level (root = 0).
	MaxDepth int
}

type DirEntry struct {
	Name string
	Cid  cid.Cid
	// Under lists the shard blocks (root excluded) above this entry.
	Under []cid.Cid
}

// BuildDir walks a stored sharded directory. Missing child shard blocks are
// tolerated (Child == nil) so that the model can be built once and reused for
// fault scenarios; everything else must be well formed.
func BuildDir(g Getter, root cid.Cid) (*Dir, error) {
	d := &Dir{Entries: map[string]cid.Cid{}}
	sh, err := d.walk(g, root, 0, nil)
	if err != nil {
		return nil, err
	}
	if sh == nil {
		return nil, fmt.Errorf("model: root shard %s not in store", root)
	}
	d.Root = sh
	return d, nil
}

func padLen(fanout int) int { return len(fmt.Sprintf("%X", fanout-1)) }

func (d *Dir) walk(g Getter, c cid.Cid, depth int, under []cid.Cid) (*Shard, error) {
	if depth > 64 {
		return nil, fmt.Errorf("model: hamt too deep")
	}
	data, ok := g.Get(c)
	if !ok {
		return nil, nil
	}
	pn, err := merkledag.DecodeProtobuf(data)
	if err != nil {
		return nil, fmt.Errorf("model: decode %s: %w", c, err)
	}
	fsn, err := ft.FSNodeFromBytes(pn.Data())
	if err != nil {
		return nil, fmt.Errorf("model: unixfs data of %s: %w", c, err)
	}
	if fsn.Type() != pb.Data_HAMTShard {
		return nil, fmt.Errorf("model: %s is not a shard", c)
	}
	fan := int(fsn.Fanout())
	if fan <= 0 || fan&(fan-1) != 0 {
		return nil, fmt.Errorf("model: bad fanout %d", fan)
	}
	sh := &Shard{Cid: c, Fanout: fan, Log2: bits.TrailingZeros(uint(fan)), PadLen: padLen(fan), Bitfield: fsn.Data(), Depth: depth}
	if depth > d.MaxDepth {
		d.MaxDepth = depth
	}
	d.Shards = append(d.Shards, sh)
	for _, l := range pn.Links() {
		sl := ShardLink{FullName: l.Name, Cid: l.Cid}
		if len(l.Name) < sh.PadLen {
			return nil, fmt.Errorf("model: short link name %q", l.Name)
		}
		if len(l.Name) == sh.PadLen {
			sl.IsShard = true
			sh.Links = append(sh.Links, sl)
			idx := len(sh.Links) - 1
			u := append(append([]cid.Cid(nil), under...), l.Cid)
			child, err := d.walk(g, l.Cid, depth+1, u)
			if err != nil {
				return nil, err
			}
			sh.Links[idx].Child = child
			continue
		}
		sl.Entry = l.Name[sh.PadLen:]
		sh.Links = append(sh.Links, sl)
		d.Entries[sl.Entry] = l.Cid
		d.Order = append(d.Order, DirEntry{Name: sl.Entry, Cid: l.Cid, Under: append([]cid.Cid(nil), under...)})
	}
	return sh, nil
}

func (s *Shard) bit(i int) bool {
	byteIdx := len(s.Bitfield) - 1 - i/8
	if byteIdx < 0 {
		return false
	}
	return (s.Bitfield[byteIdx]>>(uint(i)%8))&1 == 1
}

func (s *Shard) onesBefore(i int) int {
	n := 0
	for j := 0; j < i; j++ {
		if s.bit(j) {
			n++
		}
	}
	return n
}

// PathResult is what the specification says a lookup of name does.
type PathResult struct {
	// Shards are the child shard blocks (root excluded) the lookup must load,
	// in order.
	Shards []cid.Cid
	Found  bool
	Link   cid.Cid
	// Blocked is set when the walk met a child shard absent from the store;
	// BlockedAt is that shard.
	Blocked   bool
	BlockedAt cid.Cid
	TooDeep   bool
}

// Lookup computes the hash path of name from the specification: murmur3 x64
// 64-bit of the name, consumed most significant bit first, log2(fanout) bits
// per level; the bucket's bit selects the popcount-th link.
func (d *Dir) Lookup(name string) PathResult { return d.LookupWith(name, nil) }

// LookupWith is Lookup on a store where the shard blocks for which unavail
// returns true cannot be loaded.
func (d *Dir) LookupWith(name string, unavail func(cid.Cid) bool) PathResult {
	h := murmur3.Sum64([]byte(name))
	var res PathResult
	sh := d.Root
	consumed := 0
	for {
		w := sh.Log2
		if consumed+w > 64 {
			res.TooDeep = true
			return res
		}
		idx := int((h >> uint(64-consumed-w)) & uint64(sh.Fanout-1))
		consumed += w
		if !sh.bit(idx) {
			return res
		}
		li := sh.onesBefore(idx)
		if li >= len(sh.Links) {
			return res
		}
		l := sh.Links[li]
		if !l.IsShard {
			if l.Entry == name {
				res.Found = true
				res.Link = l.Cid
			}
			return res
		}
		res.Shards = append(res.Shards, l.Cid)
		if l.Child == nil || (unavail != nil && unavail(l.Cid)) {
			res.Blocked = true
			res.BlockedAt = l.Cid
			return res
		}
		sh = l.Child
	}
}

// ShardSet returns the set of shard blocks (root included).
func (d *Dir) ShardSet() map[string]bool {
	m := map[string]bool{}
	for _, s := range d.Shards {
		m[s.Cid.KeyString()] = true
	}
	return m
}

// ShardDFS returns the shard blocks in pre-order, link order, root first,
// first occurrences only.
func (d *Dir) ShardDFS() []cid.Cid {
	seen := map[string]bool{}
	var out []cid.Cid
	for _, s := range d.Shards {
		k := s.Cid.KeyString()
		if !seen[k] {
			seen[k] = true
			out = append(out, s.Cid)
		}
	}
	return out
}

// ---------------------------------------------------------------- generic node view

// NodeKind classifies a stored block for tree walks.
type NodeKind int

const (
	KindRaw NodeKind = iota
	KindFile
	KindDir
	KindShard
	KindSymlink
	KindOther
)

// Classify parses a block just enough to know what it is.
func Classify(g Getter, c cid.Cid) (NodeKind, *merkledag.ProtoNode, error) {
	data, ok := g.Get(c)
	if !ok {
		return KindOther, nil, fmt.Errorf("model: block %s not in store", c)
	}
	if c.Prefix().Codec == codecRaw {
		return KindRaw, nil, nil
	}
	pn, err := merkledag.DecodeProtobuf(data)
	if err != nil {
		return KindOther, nil, err
	}
	fsn, err := ft.FSNodeFromBytes(pn.Data())
	if err != nil {
		return KindOther, pn, nil
	}
	switch fsn.Type() {
	case pb.Data_File, pb.Data_Raw:
		return KindFile, pn, nil
	case pb.Data_Directory:
		return KindDir, pn, nil
	case pb.Data_HAMTShard:
		return KindShard, pn, nil
	case pb.Data_Symlink:
		return KindSymlink, pn, nil
	}
	return KindOther, pn, nil
}

// PathBlocks resolves path segments from root following UnixFS semantics and
// returns the blocks that resolution must touch, in order (root first, target
// root block last), and the target CID.
func PathBlocks(g Getter, root cid.Cid, segs []string) ([]cid.Cid, cid.Cid, error) {
	blocks := []cid.Cid{root}
	cur := root
	for _, seg := range segs {
		kind, pn, err := Classify(g, cur)
		if err != nil {
			return nil, cid.Undef, err
		}
		switch kind {
		case KindDir:
			var next cid.Cid
			for _, l := range pn.Links() {
				if l.Name == seg {
					next = l.Cid
					break
				}
			}
			if !next.Defined() {
				return blocks, cid.Undef, nil
			}
			cur = next
		case KindShard:
			d, err := BuildDir(g, cur)
			if err != nil {
				return nil, cid.Undef, err
			}
			r := d.Lookup(seg)
			blocks = append(blocks, r.Shards...)
			if !r.Found {
				return blocks, cid.Undef, nil
			}
			cur = r.Link
		default:
			return blocks, cid.Undef, nil
		}
		blocks = append(blocks, cur)
	}
	return blocks, cur, nil
}

// Reachable lists, in depth-first link order, the entries that an iteration
// can yield when the given shard blocks cannot be loaded, and the topmost
// unavailable shards the iteration meets (one error each), in order.
func (d *Dir) Reachable(unavail func(cid.Cid) bool) (entries []DirEntry, blocked []cid.Cid, links int) {
	var walk func(s *Shard, under []cid.Cid)
	walk = func(s *Shard, under []cid.Cid) {
		for _, l := range s.Links {
			links++
			if !l.IsShard {
				entries = append(entries, DirEntry{Name: l.Entry, Cid: l.Cid, Under: under})
				continue
			}
			if l.Child == nil || (unavail != nil && unavail(l.Cid)) {
				blocked = append(blocked, l.Cid)
				continue
			}
			walk(l.Child, append(append([]cid.Cid(nil), under...), l.Cid))
		}
	}
	walk(d.Root, nil)
	return
}
