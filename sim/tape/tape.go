// Package tape implements choice tapes: the only source of decisions in a
// simulated run. A run owns a few named tapes; every decision is Intn / Pick on
// one of them. A tape is filled lazily from a SplitMix64 stream derived from
// the run seed; when replaying or shrinking, the recorded values are used and
// reads past the end yield 0 (the "simplest" choice by construction).
package tape

import (
	"encoding/json"
	"sort"
)

// SplitMix64 is the run PRNG. No other randomness exists in the harness.
type SplitMix64 struct{ s uint64 }

func NewSplitMix(seed uint64) *SplitMix64 { return &SplitMix64{s: seed} }

func (r *SplitMix64) Next() uint64 {
	r.s += 0x9E3779B97F4A7C15
	z := r.s
	z = (z ^ (z >> 30)) * 0xBF58476D1CE4E5B9
	z = (z ^ (z >> 27)) * 0x94D049BB133111EB
	return z ^ (z >> 31)
}

// Mix derives a sub-seed from a seed and labels, order sensitive.
func Mix(seed uint64, labels ...uint64) uint64 {
	r := NewSplitMix(seed)
	v := r.Next()
	for _, l := range labels {
		r2 := NewSplitMix(v ^ (l * 0xD6E8FEB86659FD93))
		v = r2.Next()
	}
	return v
}

// HashString is FNV-1a 64, used to turn names into labels.
func HashString(s string) uint64 {
	h := uint64(14695981039346656037)
	for i := 0; i < len(s); i++ {
		h ^= uint64(s[i])
		h *= 1099511628211
	}
	return h
}

// Tape is one stream of decisions.
type Tape struct {
	Name   string
	Vals   []uint64
	pos    int
	rng    *SplitMix64
	frozen bool
}

func (t *Tape) next() uint64 {
	var v uint64
	if t.pos < len(t.Vals) {
		v = t.Vals[t.pos]
	} else if t.frozen {
		v = 0
	} else {
		v = t.rng.Next()
		t.Vals = append(t.Vals, v)
	}
	t.pos++
	return v
}

// Raw returns the next raw value.
func (t *Tape) Raw() uint64 { return t.next() }

// Intn returns a value in [0,n). n<=1 still consumes one cell so that the
// tape layout does not depend on n.
func (t *Tape) Intn(n int) int {
	v := t.next()
	if n <= 1 {
		return 0
	}
	return int(v % uint64(n))
}

// Range returns a value in [lo,hi].
func (t *Tape) Range(lo, hi int) int {
	if hi < lo {
		hi = lo
	}
	return lo + t.Intn(hi-lo+1)
}

// Bool is true with probability num/den.
func (t *Tape) Chance(num, den int) bool { return t.Intn(den) < num }

// Pick returns an index drawn with the given weights; index 0 should be the
// simplest alternative.
func (t *Tape) Pick(weights ...int) int {
	total := 0
	for _, w := range weights {
		total += w
	}
	v := t.Intn(total)
	for i, w := range weights {
		if v < w {
			return i
		}
		v -= w
	}
	return len(weights) - 1
}

// Pos is the number of cells consumed so far.
func (t *Tape) Pos() int { return t.pos }

// Skip consumes n cells (used to keep fixed-width records aligned).
func (t *Tape) Skip(n int) {
	for i := 0; i < n; i++ {
		t.next()
	}
}

// Set is the set of tapes of one run.
type Set struct {
	Seed   uint64
	tapes  map[string]*Tape
	frozen bool
}

// NewSet makes a fresh, generating tape set for a run seed.
func NewSet(seed uint64) *Set { return &Set{Seed: seed, tapes: map[string]*Tape{}} }

// T returns the named tape, creating it on first use.
func (s *Set) T(name string) *Tape {
	if t, ok := s.tapes[name]; ok {
		return t
	}
	t := &Tape{Name: name, rng: NewSplitMix(Mix(s.Seed, HashString(name))), frozen: s.frozen}
	s.tapes[name] = t
	return t
}

// Snapshot returns the consumed prefix of every tape (trimmed to what was
// read), suitable for a replay file.
func (s *Set) Snapshot() map[string][]uint64 {
	out := map[string][]uint64{}
	for _, n := range s.names() {
		t := s.tapes[n]
		k := t.pos
		if k > len(t.Vals) {
			k = len(t.Vals)
		}
		out[n] = append([]uint64(nil), t.Vals[:k]...)
	}
	return out
}

func (s *Set) names() []string {
	ns := make([]string, 0, len(s.tapes))
	for n := range s.tapes {
		ns = append(ns, n)
	}
	sort.Strings(ns)
	return ns
}

// FromSnapshot builds a frozen set: recorded values are replayed, anything
// beyond them reads as zero.
func FromSnapshot(seed uint64, snap map[string][]uint64) *Set {
	s := &Set{Seed: seed, tapes: map[string]*Tape{}, frozen: true}
	for n, v := range snap {
		s.tapes[n] = &Tape{Name: n, Vals: append([]uint64(nil), v...), frozen: true}
	}
	return s
}

// MarshalSnapshot is a stable JSON encoding of a snapshot.
func MarshalSnapshot(snap map[string][]uint64) json.RawMessage {
	b, _ := json.Marshal(snap)
	return b
}

// ---------------------------------------------------------------- shrinking

// Shrink minimises a snapshot while fails(snapshot) stays true. fails must be
// deterministic. budget bounds the number of candidate executions. The tapes
// listed in recordWidth are made of fixed-width records; deletions on them are
// tried in multiples of the width so whole records disappear.
func Shrink(snap map[string][]uint64, recordWidth map[string]int, budget int, fails func(map[string][]uint64) bool) (map[string][]uint64, int) {
	cur := cloneSnap(snap)
	used := 0
	try := func(c map[string][]uint64) bool {
		if used >= budget {
			return false
		}
		used++
		return fails(c)
	}
	names := make([]string, 0, len(cur))
	for n := range cur {
		names = append(names, n)
	}
	sort.Strings(names)
	improved := true
	for improved && used < budget {
		improved = false
		// pass 1: truncate tails (reads past the end give zero)
		for _, n := range names {
			for len(cur[n]) > 0 && used < budget {
				w := recordWidth[n]
				if w <= 0 {
					w = 1
				}
				cut := len(cur[n]) / 2
				cut -= cut % w
				done := false
				for ; cut >= w || (cut > 0 && w == 1); cut /= 2 {
					cut -= cut % w
					if cut <= 0 {
						break
					}
					c := cloneSnap(cur)
					c[n] = c[n][:len(c[n])-cut]
					if try(c) {
						cur = c
						improved = true
						done = true
						break
					}
				}
				if !done {
					break
				}
			}
		}
		// pass 2: delete interior spans
		for _, n := range names {
			w := recordWidth[n]
			if w <= 0 {
				w = 1
			}
			for span := 8 * w; span >= w; span /= 2 {
				span -= span % w
				if span <= 0 {
					break
				}
				for i := 0; i+span <= len(cur[n]) && used < budget; {
					c := cloneSnap(cur)
					c[n] = append(append([]uint64(nil), c[n][:i]...), c[n][i+span:]...)
					if try(c) {
						cur = c
						improved = true
					} else {
						i += w
					}
				}
			}
		}
		// pass 3: lower values (zero, then halve)
		for _, n := range names {
			for i := 0; i < len(cur[n]) && used < budget; i++ {
				v := cur[n][i]
				if v == 0 {
					continue
				}
				c := cloneSnap(cur)
				c[n][i] = 0
				if try(c) {
					cur = c
					improved = true
					continue
				}
				// small modulus reductions: keep the low bits so v%n shrinks
				for _, m := range []uint64{2, 3, 4, 8, 16, 64, 256, 4096} {
					if v < m {
						break
					}
					c := cloneSnap(cur)
					c[n][i] = v % m
					if c[n][i] == v {
						continue
					}
					if try(c) {
						cur = c
						improved = true
						break
					}
				}
			}
		}
	}
	return cur, used
}

func cloneSnap(s map[string][]uint64) map[string][]uint64 {
	c := make(map[string][]uint64, len(s))
	for k, v := range s {
		c[k] = append([]uint64(nil), v...)
	}
	return c
}
